/-
C09 helper lemmas, part 4: every accepted operation of the data-cache model commutes with the
erasure to the tag-only reference cache (`Sim`), and histories of accepted operations do.
-/
import ArchSim.Lemmas.C09Sys

namespace ArchSim.Lemmas.C09
open ArchSim ArchSim.Cache ArchSim.Spec.TagCache

/-- One step of the model is simulated by one step of the reference: the erased state, the added
    cycles agree, the invariant is kept, and the operation did not raise. -/
structure Sim {σ : Type} (ok : σ → Prop) (o : Out σ) (r : ROut σ) : Prop where
  erase_eq : erase o.sys = r.cache
  extra_eq : o.extra = r.extra
  inv      : Inv ok o.sys
  succeeds : ∃ v, o.res = .ok v

section
variable {σ : Type} {P : PolicyOps σ} {ok : σ → Prop} {s : DSys σ}

theorem refRead_erase (a : Int) (counted : Bool) {S' : List (CSet σ Nat)} {hit : Bool}
    (h : lookupSets P (s.sets.map eraseSet) (decode s.geo.idxBits s.geo.blkBits a) true
          = (S'.map eraseSet, hit)) (m' : Mem.Mem) :
    refRead P (erase s) a counted =
      { cache := erase (if counted then bump { s with sets := S', mem := m' } hit
                        else { s with sets := S', mem := m' }),
        miss := counted && !hit,
        extra := if counted && !hit then s.penalty else 0 } := by
  have h' : lookupSets P (erase s).sets (decode (erase s).geo.idxBits (erase s).geo.blkBits a) true
      = (S'.map eraseSet, hit) := h
  simp only [refRead, h']
  cases counted <;> rfl

theorem refWrite_erase (a : Int) {S' : List (CSet σ Nat)} {hit : Bool}
    (h : lookupSets P (s.sets.map eraseSet) (decode s.geo.idxBits s.geo.blkBits a) (!s.wt)
          = (S'.map eraseSet, hit)) (m' : Mem.Mem) :
    refWrite P (erase s) a =
      { cache := erase (bump { s with sets := S', mem := m' } hit),
        miss := !hit,
        extra := if hit then 0 else s.penalty } := by
  have h' : lookupSets P (erase s).sets (decode (erase s).geo.idxBits (erase s).geo.blkBits a)
      (!(erase s).wt) = (S'.map eraseSet, hit) := h
  simp only [refWrite, h']
  rfl

/-- The block a miss fetches from the lower memory. -/
theorem fetch_block (hinv : Inv ok s) {bits : Nat} {a : Int} (hacc : Accepted bits a) :
    ∃ ws, readBlockFromMem s.mem (decode s.geo.idxBits s.geo.blkBits a).blockBase s.geo.words 0 = .ok ws
      ∧ ws.length = s.geo.words ∧
      16384 ≤ (decode s.geo.idxBits s.geo.blkBits a).blockBase ∧
      (decode s.geo.idxBits s.geo.blkBits a).blockBase + 4 * s.geo.words ≤ 4294967296 := by
  obtain ⟨h1, h2⟩ := blockBase_range s.geo.idxBits s.geo.blkBits hinv.geo.blk a hacc.2.2
  obtain ⟨ws, hws, hl⟩ := readBlockFromMem_ok s.mem hinv.cfg _ s.geo.words 0 h1
    (by simpa [Geo.words] using h2)
  exact ⟨ws, hws, hl, h1, h2⟩

theorem WayOK_newWay {g : Geo} {d : DAddr} {vals : List Nat} (h1 : 16384 ≤ d.blockBase)
    (h2 : d.blockBase + 4 * g.words ≤ 4294967296) (hl : vals.length ≤ g.words) :
    WayOK g (newWay d vals) :=
  ⟨hl, fun _ => ⟨h1, by show d.blockBase + 4 * vals.length ≤ 4294967296; omega⟩⟩

/-- The victim way of a set in a state satisfying the invariant. -/
theorem victim_way {g : Geo} (hP : PolicyOK P g.assoc ok) {cs : CSet σ Nat}
    (hcs : SetOK ok g cs) :
    ∃ v old p, P.victim cs.pol = some v ∧ cs.ways[v]? = some old ∧ P.access cs.pol v = some p ∧
      ok p ∧ WayOK g old := by
  obtain ⟨v, hv, hvlt⟩ := hP.victim cs.pol hcs.pol
  obtain ⟨p, hp, hokp⟩ := hP.access cs.pol v hcs.pol hvlt
  have hvl : v < cs.ways.length := hcs.nways ▸ hvlt
  exact ⟨v, cs.ways[v], p, hv, List.getElem?_eq_getElem hvl, hp, hokp,
    hcs.ways _ (List.getElem_mem hvl)⟩

/-- Reads (counted or not) of an accepted address. -/
theorem read_sim (hP : PolicyOK P s.geo.assoc ok) (hinv : Inv ok s) {bits : Nat} {a : Int}
    (hacc : Accepted bits a) (counted : Bool) :
    Sim ok (s.read P bits a counted) (refRead P (erase s) a counted) := by
  obtain ⟨cs, hs, hcs⟩ := hinv.getSet a
  cases hf : findWay cs.ways (decode s.geo.idxBits s.geo.blkBits a).tag with
  | some i =>
    have hi : i < s.geo.assoc := hcs.nways ▸ findWay_lt hf
    obtain ⟨p, hp, hokp⟩ := hP.access cs.pol i hcs.pol hi
    have hrd := read_of_readBlockSys bits a counted (readBlockSys_hit (s := s) hs hf hp)
    have href := refRead_erase (s := s) a counted (lookupSets_hit true hs hf hp) s.mem
    rw [hrd, href]
    refine ⟨rfl, rfl, ?_, fromBlock_ok hacc _ _ _⟩
    have hI := hinv.update (decode s.geo.idxBits s.geo.blkBits a).setIdx (hcs.withPol hokp)
      hinv.cfg
    cases counted
    · exact hI s.hits s.accesses s.lastHit
    · exact hI _ _ _
  | none =>
    obtain ⟨ws, hws, hlen, hb1, hb2⟩ := fetch_block hinv hacc
    obtain ⟨v, old, p, hv, ho, hp, hokp, hold⟩ := victim_way hP hcs
    have hrd := read_of_readBlockSys bits a counted
      (readBlockSys_miss (s := s) hs hf hws hv ho hp hinv.cfg hold)
    have href := refRead_erase (s := s) a counted (lookupSets_miss_alloc ws hs hf hv hp) (wbMem s old)
    rw [hrd, href]
    refine ⟨rfl, rfl, ?_, fromBlock_ok hacc _ _ _⟩
    have hI := hinv.update (decode s.geo.idxBits s.geo.blkBits a).setIdx
      (hcs.withWay hokp v (WayOK_newWay hb1 hb2 (Nat.le_of_eq hlen)))
      ((wbMem_cfg s old).trans hinv.cfg)
    cases counted
    · exact hI s.hits s.accesses s.lastHit
    · exact hI _ _ _

/-- Write-back writes of an accepted address. -/
theorem writeWB_sim (hP : PolicyOK P s.geo.assoc ok) (hI : PolicyIdem P ok) (hinv : Inv ok s)
    (hwt : s.wt = false) {bits : Nat} {a : Int} (hacc : Accepted bits a) (v : Nat) :
    Sim ok (s.writeWB P bits a v) (refWrite P (erase s) a) ∧ (s.writeWB P bits a v).res = .ok 0 := by
  obtain ⟨cs, hs, hcs⟩ := hinv.getSet a
  cases hf : findWay cs.ways (decode s.geo.idxBits s.geo.blkBits a).tag with
  | some i =>
    have hil : i < cs.ways.length := findWay_lt hf
    have hi : i < s.geo.assoc := hcs.nways ▸ hil
    obtain ⟨p, hp, hokp⟩ := hP.access cs.pol i hcs.pol hi
    have hp2 := hI cs.pol p i hcs.pol hp
    obtain ⟨b', hb', hbl⟩ := intoBlock_ok hacc s.geo.idxBits s.geo.blkBits
      ((cs.ways[i]?.map (·.vals)).getD []) v
    have hwr := writeWB_hit (s := s) bits a v rfl hs hf hp hp2 hb'
    have href := refWrite_erase (s := s) a (lookupSets_hit_rewrite (!s.wt) b' hs hf hp) s.mem
    rw [hwr, href]
    refine ⟨⟨rfl, by simp, ?_, ⟨0, rfl⟩⟩, rfl⟩
    obtain ⟨_, _, _, hb1, hb2⟩ := fetch_block hinv hacc
    have hwl : ((cs.ways[i]?.map (·.vals)).getD []).length ≤ s.geo.words := by
      rw [List.getElem?_eq_getElem hil]
      exact (hcs.ways _ (List.getElem_mem hil)).1
    exact hinv.update (decode s.geo.idxBits s.geo.blkBits a).setIdx
      (hcs.withWay hokp i
        (WayOK_newWay hb1 hb2 (hbl ▸ hwl))) hinv.cfg _ _ _
  | none =>
    obtain ⟨ws, hws, hlen, hb1, hb2⟩ := fetch_block hinv hacc
    obtain ⟨v', old, p, hv, ho, hp, hokp, hold⟩ := victim_way hP hcs
    obtain ⟨b', hb', hbl⟩ := intoBlock_ok hacc s.geo.idxBits s.geo.blkBits ws v
    have hwr := writeWB_miss (s := s) bits a v rfl hs hf hws hb' hv ho hp hinv.cfg hold
    have hlk := lookupSets_miss_alloc (P := P) b' hs hf hv hp
    rw [show true = !s.wt by rw [hwt]; rfl] at hlk
    have href := refWrite_erase (s := s) a hlk
      (if old.dirty then (writeBlockToMem s.mem old.base old.vals 0).1 else s.mem)
    rw [hwr, href]
    refine ⟨⟨rfl, by simp, ?_, ⟨0, rfl⟩⟩, rfl⟩
    refine hinv.update (decode s.geo.idxBits s.geo.blkBits a).setIdx
      (hcs.withWay hokp v' (WayOK_newWay hb1 hb2 (by rw [hbl, hlen]; exact Nat.le_refl _))) ?_ _ _ _
    split
    · exact (writeBlockToMem_cfg _ _ _ _).trans hinv.cfg
    · exact hinv.cfg

/-- Write-through writes of an accepted address. -/
theorem writeWT_sim (hP : PolicyOK P s.geo.assoc ok) (hI : PolicyIdem P ok) (hinv : Inv ok s)
    (hwt : s.wt = true) {bits : Nat} {a : Int} (hacc : Accepted bits a) (v : Nat) :
    Sim ok (s.writeWT P bits a v) (refWrite P (erase s) a) ∧ (s.writeWT P bits a v).res = .ok 0 := by
  obtain ⟨cs, hs, hcs⟩ := hinv.getSet a
  obtain ⟨m', hm', hc'⟩ := memWrite_accepted hacc s.mem hinv.cfg v
  cases hf : findWay cs.ways (decode s.geo.idxBits s.geo.blkBits a).tag with
  | some i =>
    have hil : i < cs.ways.length := findWay_lt hf
    have hi : i < s.geo.assoc := hcs.nways ▸ hil
    obtain ⟨p, hp, hokp⟩ := hP.access cs.pol i hcs.pol hi
    have hp2 := hI cs.pol p i hcs.pol hp
    obtain ⟨b', hb', hbl⟩ := intoBlock_ok hacc s.geo.idxBits s.geo.blkBits
      ((cs.ways[i]?.map (·.vals)).getD []) v
    have hwr := writeWT_hit (s := s) bits a v rfl hs hf hp hp2 hb' hm'
    have href := refWrite_erase (s := s) a (lookupSets_hit_rewrite (!s.wt) b' hs hf hp) m'
    rw [hwr, href]
    refine ⟨⟨rfl, by simp, ?_, ⟨0, rfl⟩⟩, rfl⟩
    obtain ⟨_, _, _, hb1, hb2⟩ := fetch_block hinv hacc
    have hwl : ((cs.ways[i]?.map (·.vals)).getD []).length ≤ s.geo.words := by
      rw [List.getElem?_eq_getElem hil]
      exact (hcs.ways _ (List.getElem_mem hil)).1
    exact hinv.update (decode s.geo.idxBits s.geo.blkBits a).setIdx
      (hcs.withWay hokp i (WayOK_newWay hb1 hb2 (hbl ▸ hwl))) hc' _ _ _
  | none =>
    have hwr := writeWT_miss (P := P) (s := s) bits a v rfl hs hf (laneErr_none hacc _ _) hm'
    have hlk : lookupSets P (s.sets.map eraseSet) (decode s.geo.idxBits s.geo.blkBits a) (!s.wt)
        = (s.sets.map eraseSet, false) := by
      rw [hwt]; exact lookupSets_miss_noalloc hs hf
    have href := refWrite_erase (s := s) a hlk m'
    rw [hwr, href]
    refine ⟨⟨rfl, by simp, ?_, ⟨0, rfl⟩⟩, rfl⟩
    exact (hinv.withMem hc').counters _ _ _

/-- Non-direct writes of an accepted address, under either write policy. -/
theorem write_sim (hP : PolicyOK P s.geo.assoc ok) (hI : PolicyIdem P ok) (hinv : Inv ok s)
    {bits : Nat} {a : Int} (hacc : Accepted bits a) (v : Nat) :
    Sim ok (s.write P bits a v false) (refWrite P (erase s) a) ∧
      (s.write P bits a v false).res = .ok 0 := by
  unfold DSys.write
  simp only [Bool.false_eq_true, if_false]
  cases hwt : s.wt
  · simpa using writeWB_sim hP hI hinv hwt hacc v
  · simpa using writeWT_sim hP hI hinv hwt hacc v

/-- A direct write (parser preload) touches only the lower memory, whatever the address. -/
theorem writeDirect_spec (s : DSys σ) (bits : Nat) (a : Int) (v : Nat) :
    ∃ m', (s.writeDirect bits a v).sys = { s with mem := m' } ∧ m'.cfg = s.mem.cfg ∧
      (s.writeDirect bits a v).extra = 0 := by
  unfold DSys.writeDirect
  cases h : Mem.write s.mem bits a v with
  | none => exact ⟨s.mem, rfl, rfl, rfl⟩
  | some r =>
    obtain ⟨m', e⟩ := r
    cases e with
    | none => exact ⟨m', rfl, write_cfg h, rfl⟩
    | some e => exact ⟨m', rfl, write_cfg h, rfl⟩

theorem writeDirect_inv (hinv : Inv ok s) (bits : Nat) (a : Int) (v : Nat) :
    Inv ok (s.writeDirect bits a v).sys := by
  obtain ⟨m', h1, h2, _⟩ := writeDirect_spec s bits a v
  rw [h1]
  exact hinv.withMem (h2.trans hinv.cfg)

end

end ArchSim.Lemmas.C09
