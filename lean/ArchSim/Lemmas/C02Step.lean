/-
C02 (control half), part 1: `Pipe.step` exposed through named per-stage outputs.
-/
import ArchSim.Model.Pipe

namespace ArchSim.Pipe
open ArchSim ArchSim.Rv

/-- Architectural state after the cycle counter advanced. -/
def tick (p : PSt) : St := { p.st with cycles := p.st.cycles + 1 }

/-- IF stage output of this cycle (state, new IF/ID latch). -/
def ifOut (p : PSt) : St × Option Latch :=
  match p.stalled with
  | none => ifStage (tick p)
  | some _ => (tick p, p.l0)

def wbOut (p : PSt) : St × Option Latch := wbStage (ifOut p).1 p.l3
def idOut (p : PSt) : Option Latch := idStage p.hazard (wbOut p).1.regs (idInput p) p.l1 p.l2
def exOut (p : PSt) : ExOut := exStage (wbOut p).1 (exInput p) p.l2 p.l3
def memOut (p : PSt) : MemStOut := memStage (exOut p).st (memInput p)

theorem step_eq (p : PSt) :
    step p =
      match (exOut p).fault with
      | some f => { p := { p with st := (exOut p).st, l1 := exFaultL1 p }, fault := some f }
      | none =>
        match (memOut p).fault with
        | some f => { p := { p with st := (memOut p).st }, fault := some f }
        | none =>
          { p := finishStep p (memOut p).st (ifOut p).2 (idOut p) (exOut p).latch (memOut p).latch (wbOut p).2,
            fault := none } := by
  rfl

theorem step_nofault (p : PSt) (h1 : (exOut p).fault = none) (h2 : (memOut p).fault = none) :
    step p = { p := finishStep p (memOut p).st (ifOut p).2 (idOut p) (exOut p).latch (memOut p).latch (wbOut p).2,
               fault := none } := by
  rw [step_eq, h1]; simp only [h2]

theorem step_fault_none_iff (p : PSt) :
    (step p).fault = none ↔ (exOut p).fault = none ∧ (memOut p).fault = none := by
  rw [step_eq]
  cases h1 : (exOut p).fault <;> simp
  cases h2 : (memOut p).fault <;> simp

end ArchSim.Pipe
