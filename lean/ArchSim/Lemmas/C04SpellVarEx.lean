/-
C04 (spelling independence, part 2): concrete texts for the non-vacuity example of the error case.
-/
import ArchSim.Lemmas.C04SpellErr5
import ArchSim.Lemmas.C04SpellFit4

namespace ArchSim.Lemmas.C04Spell
open ArchSim ArchSim.PP ArchSim.Rv ArchSim.Asm ArchSim.Lemmas.C14

/-- a one-line program that uses an undeclared variable -/
def tErr1 : String := "lw x1, nosuch"
/-- the same entry on line 3, behind a comment line and a blank line, indented, with a trailing comment -/
def tErr2 : String := "# c\n\n  lw x1, nosuch  # x"

/-- loading `tErr1` fails: undeclared variable, reported for line 1 -/
theorem tErr1_fails (s : St) :
    (load s tErr1).err = some (.parser "ParserVariableException" 1 "lw x1, nosuch") := by
  have hs : AllWs [' '] := by unfold AllWs; decide
  have hn : AllWs [] := allWs_nil
  have hp := line_loadVar (.plain []) hn (fun _ => false) [' '] [] [' '] [] hs (by decide) hn hs hn .lw rfl 1
    (by decide) .x "nosuch".toList ⟨'n', "osuch".toList, rfl, by decide, by decide⟩ .none trivial
  rw [show (LinePre.plain []).txt (recase (fun _ => false) (mn Op.lw) ++
      tReg [' '] .x 1 (tSep [] ',' (tVar [' '] "nosuch".toList .none []))) = "lw x1, nosuch".toList
      by decide +kernel] at hp
  have hsan : sanitize tErr1 = [(1, "lw x1, nosuch".toList)] := by decide +kernel
  have htok : tokenize (sanitize tErr1) = .ok [(1, "lw x1, nosuch",
      { lbl := none, item := .grp (.memPseudo "lw" 1 "nosuch" none) })] := by
    rw [hsan]
    simp only [tokenize, hp]
    rfl
  unfold load
  simp only [htok]
  rfl

end ArchSim.Lemmas.C04Spell
