/-
C04 helper lemmas (back end), part 2: `buildInstrs` emits exactly the instruction-producing entries, in
order, the j-th one instantiated at address `addr + 4j`; the instruction memory holds instruction `j`
at address `4j`.
-/
import ArchSim.Lemmas.C04Labels

namespace ArchSim.Lemmas.C04
open ArchSim ArchSim.Asm ArchSim.Rv

theorem isReal_fence : isRealMnemonic "fence" = true := by decide
theorem isReal_jal : isRealMnemonic "jal" = true := by decide

/-- an entry that `instantiate` accepts carries a real mnemonic (so the label pass counted it) -/
theorem instantiate_ok_emits (ls : Labels) (addr : Int) (k : Nat) (line : String) (pi : PInstr) (ins : Instr)
    (h : instantiate ls addr k line pi = .ok ins) : emits (.grp pi) = true := by
  simp only [emits, isRealMnemonic]
  cases pi with
  | rtype mn rd rs1 rs2 =>
    simp only [instantiate] at h; simp only [piMnemonic]
    cases ho : Op.ofMnemonic mn with
    | none => rw [ho] at h; cases h
    | some op => rfl
  | utype mn rd imm =>
    simp only [instantiate] at h; simp only [piMnemonic]
    cases ho : Op.ofMnemonic mn with
    | none => rw [ho] at h; cases h
    | some op => rfl
  | btypeLabel mn a b l off =>
    simp only [instantiate] at h; simp only [piMnemonic]
    cases ho : Op.ofMnemonic mn with
    | none => rw [ho] at h; cases h
    | some op => rfl
  | mem mn a imm b =>
    simp only [instantiate] at h; simp only [piMnemonic]
    cases ho : Op.ofMnemonic mn with
    | none => rw [ho] at h; cases h
    | some op => rfl
  | rri mn a b imm =>
    simp only [instantiate] at h; simp only [piMnemonic]
    cases ho : Op.ofMnemonic mn with
    | none => rw [ho] at h; cases h
    | some op => rfl
  | csr mn rd c rs1 =>
    simp only [instantiate] at h; simp only [piMnemonic]
    cases ho : Op.ofMnemonic mn with
    | none => rw [ho] at h; cases h
    | some op => rfl
  | csri mn rd c u =>
    simp only [instantiate] at h; simp only [piMnemonic]
    cases ho : Op.ofMnemonic mn with
    | none => rw [ho] at h; cases h
    | some op => rfl
  | fence a b => exact isReal_fence
  | jalImm rd imm => exact isReal_jal
  | jalLabel rd l off => exact isReal_jal
  | memPseudo mn r v i => simp only [instantiate] at h; cases h
  | sPseudo mn r v i r2 => simp only [instantiate] at h; cases h
  | li rd imm => simp only [instantiate] at h; cases h
  | mv rd rs => simp only [instantiate] at h; cases h

theorem map_ok_iff {α β ε} (f : α → β) (x : Except ε α) (y : β) :
    x.map f = .ok y ↔ ∃ a, x = .ok a ∧ f a = y := by
  cases x with
  | error e => simp [Except.map]
  | ok a => simp [Except.map]

/-- Specification of `buildInstrs` (any label table, any start address), as a predicate on the output:
    the number of instruction objects is the number of emitting entries; the entry at position `p`, if
    it is a group, is an emitting entry, was instantiated at `addr + 4j` where `j` is the number of
    emitting entries before it, and its object is the `j`-th of the output; `ecall` / `ebreak` words give
    their objects at the same index; other strings (labels) give nothing; no other kind of entry
    occurs. -/
def BuildSpec (ls : Labels) (es : List TEntry) (addr : Int) (instrs : List Instr) : Prop :=
    instrs.length = countE es ∧
    (∀ (p : Nat) (hp : p < es.length) (pi : PInstr), es[p].2.2 = .grp pi →
      emits (.grp pi) = true ∧
      ∃ ins, instantiate ls (addr + 4 * (countE (es.take p) : Int)) es[p].1 es[p].2.1 pi = .ok ins ∧
        instrs[countE (es.take p)]? = some ins) ∧
    (∀ (p : Nat) (hp : p < es.length), es[p].2.2 = .str "ecall" →
      instrs[countE (es.take p)]? = some { op := .ecall }) ∧
    (∀ (p : Nat) (hp : p < es.length), es[p].2.2 = .str "ebreak" →
      instrs[countE (es.take p)]? = some { op := .ebreak, imm := 1 }) ∧
    (∀ (p : Nat) (hp : p < es.length), (∃ s, es[p].2.2 = .str s) ∨ (∃ pi, es[p].2.2 = .grp pi))

theorem buildInstrs_spec (ls : Labels) (es : List TEntry) (addr : Int) (instrs : List Instr)
    (h : buildInstrs ls es addr = .ok instrs) : BuildSpec ls es addr instrs := by
  induction es generalizing addr instrs with
  | nil =>
    simp only [buildInstrs, Except.ok.injEq] at h
    subst h
    exact ⟨rfl, fun p hp => absurd hp (Nat.not_lt_zero _), fun p hp => absurd hp (Nat.not_lt_zero _),
      fun p hp => absurd hp (Nat.not_lt_zero _), fun p hp => absurd hp (Nat.not_lt_zero _)⟩
  | cons e rest ih =>
    obtain ⟨k, line, it⟩ := e
    -- the two shapes of a step: the head emits `i0`, or it emits nothing
    have emitCase : ∀ (i0 : Instr), emits it = true →
        (buildInstrs ls rest (addr + 4)).map (i0 :: ·) = .ok instrs →
        (∀ pi, it = .grp pi → instantiate ls addr k line pi = .ok i0) →
        (it = .str "ecall" → i0 = { op := .ecall }) → (it = .str "ebreak" → i0 = { op := .ebreak, imm := 1 }) →
        ((∃ s, it = .str s) ∨ (∃ pi, it = .grp pi)) → BuildSpec ls ((k, line, it) :: rest) addr instrs := by
      intro i0 hem hmap hgrp hec heb hkind
      obtain ⟨tl, htl, hcons⟩ := (map_ok_iff _ _ _).mp hmap
      subst hcons
      obtain ⟨ih0, ih1, ih2, ih3, ih4⟩ := ih (addr + 4) tl htl
      exact (by
        refine ⟨?_, ?_, ?_, ?_, ?_⟩
        · rw [countE_cons]; simp only [hem, if_true, List.length_cons, ih0]; omega
        · intro p hp pi hpi
          cases p with
          | zero =>
            simp only [List.getElem_cons_zero] at hpi
            simp only [List.take_zero, countE_nil, Int.natCast_zero, Int.mul_zero, Int.add_zero,
              List.getElem_cons_zero, List.getElem?_cons_zero]
            exact ⟨by rw [← hpi]; exact hem, i0, hgrp pi hpi, rfl⟩
          | succ p' =>
            simp only [List.getElem_cons_succ] at hpi ⊢
            obtain ⟨he, ins, hins, hget⟩ := ih1 p' (by simpa using hp) pi hpi
            rw [countE_take_succ]
            simp only [hem, if_true]
            refine ⟨he, ins, ?_, ?_⟩
            · rw [← hins]; congr 1; simp only [Int.natCast_add]; omega
            · rw [Nat.add_comm, List.getElem?_cons_succ]; exact hget
        · intro p hp hpi
          cases p with
          | zero =>
            simp only [List.getElem_cons_zero] at hpi
            simp only [List.take_zero, countE_nil, List.getElem?_cons_zero, hec hpi]
          | succ p' =>
            simp only [List.getElem_cons_succ] at hpi
            rw [countE_take_succ]
            simp only [hem, if_true]
            rw [Nat.add_comm, List.getElem?_cons_succ]; exact ih2 p' (by simpa using hp) hpi
        · intro p hp hpi
          cases p with
          | zero =>
            simp only [List.getElem_cons_zero] at hpi
            simp only [List.take_zero, countE_nil, List.getElem?_cons_zero, heb hpi]
          | succ p' =>
            simp only [List.getElem_cons_succ] at hpi
            rw [countE_take_succ]
            simp only [hem, if_true]
            rw [Nat.add_comm, List.getElem?_cons_succ]; exact ih3 p' (by simpa using hp) hpi
        · intro p hp
          cases p with
          | zero => simpa using hkind
          | succ p' => simpa using ih4 p' (by simpa using hp))
    cases it with
    | str s =>
      simp only [buildInstrs] at h
      by_cases h1 : s = "ecall"
      · subst h1
        simp only [if_true] at h
        exact emitCase { op := .ecall } (by decide) h (fun pi hpi => by cases hpi) (fun _ => rfl)
          (fun hx => by revert hx; decide) (Or.inl ⟨_, rfl⟩)
      · by_cases h2 : s = "ebreak"
        · subst h2
          simp only [if_neg h1, if_true] at h
          exact emitCase { op := .ebreak, imm := 1 } (by decide) h (fun pi hpi => by cases hpi)
            (fun hx => by revert hx; decide) (fun _ => rfl) (Or.inl ⟨_, rfl⟩)
        · simp only [if_neg h1, if_neg h2] at h
          have hne : emits (.str s) = false := by
            simp only [emits, decide_eq_false_iff_not, not_or]; exact ⟨h1, h2⟩
          obtain ⟨ih0, ih1, ih2, ih3, ih4⟩ := ih addr instrs h
          refine ⟨?_, ?_, ?_, ?_, ?_⟩
          · rw [countE_cons]; simp only [hne, Bool.false_eq_true, if_false, Nat.zero_add]; exact ih0
          · intro p hp pi hpi
            cases p with
            | zero => simp only [List.getElem_cons_zero] at hpi; cases hpi
            | succ p' =>
              simp only [List.getElem_cons_succ] at hpi ⊢
              rw [countE_take_succ]
              simp only [hne, Bool.false_eq_true, if_false, Nat.zero_add]
              exact ih1 p' (by simpa using hp) pi hpi
          · intro p hp hpi
            cases p with
            | zero =>
              simp only [List.getElem_cons_zero, Item.str.injEq] at hpi; exact absurd hpi h1
            | succ p' =>
              simp only [List.getElem_cons_succ] at hpi
              rw [countE_take_succ]
              simp only [hne, Bool.false_eq_true, if_false, Nat.zero_add]
              exact ih2 p' (by simpa using hp) hpi
          · intro p hp hpi
            cases p with
            | zero =>
              simp only [List.getElem_cons_zero, Item.str.injEq] at hpi; exact absurd hpi h2
            | succ p' =>
              simp only [List.getElem_cons_succ] at hpi
              rw [countE_take_succ]
              simp only [hne, Bool.false_eq_true, if_false, Nat.zero_add]
              exact ih3 p' (by simpa using hp) hpi
          · intro p hp
            cases p with
            | zero => exact Or.inl ⟨s, rfl⟩
            | succ p' => simpa using ih4 p' (by simpa using hp)
    | grp pi =>
      simp only [buildInstrs] at h
      cases hi : instantiate ls addr k line pi with
      | error x => rw [hi] at h; cases h
      | ok i0 =>
        rw [hi] at h
        simp only at h
        exact emitCase i0 (instantiate_ok_emits ls addr k line pi i0 hi) h
          (fun pi' hpi => by cases hpi; exact hi) (fun hx => by cases hx) (fun hx => by cases hx)
          (Or.inr ⟨_, rfl⟩)
    | varDecl n ty vals => simp only [buildInstrs] at h; cases h
    | strDecl n b => simp only [buildInstrs] at h; cases h
    | zeroDecl n c => simp only [buildInstrs] at h; cases h
    | directive d => simp only [buildInstrs] at h; cases h

/-- continuation of a build: append what `es₂` gives at the address after the instructions so far -/
def appendBuild (ls : Labels) (es₂ : List TEntry) (addr : Int) (r : Except AsmErr (List Instr)) :
    Except AsmErr (List Instr) :=
  match r with
  | .error e => .error e
  | .ok i₁ => (buildInstrs ls es₂ (addr + 4 * (i₁.length : Int))).map (i₁ ++ ·)

theorem appendBuild_map_cons (ls : Labels) (es₂ : List TEntry) (addr : Int) (i0 : Instr)
    (r : Except AsmErr (List Instr)) :
    (appendBuild ls es₂ (addr + 4) r).map (i0 :: ·) = appendBuild ls es₂ addr (r.map (i0 :: ·)) := by
  cases r with
  | error x => rfl
  | ok i₁ =>
    simp only [appendBuild, Except.map, List.length_cons]
    have e : addr + 4 * (((i₁.length + 1 : Nat)) : Int) = addr + 4 + 4 * (i₁.length : Int) := by
      simp only [Int.natCast_add]; omega
    rw [e]
    cases buildInstrs ls es₂ (addr + 4 + 4 * (i₁.length : Int)) <;> rfl

/-- `buildInstrs` distributes over concatenation: the second part is built at the address after the
    first part's instructions. -/
theorem buildInstrs_append (ls : Labels) (es₁ es₂ : List TEntry) (addr : Int) :
    buildInstrs ls (es₁ ++ es₂) addr = appendBuild ls es₂ addr (buildInstrs ls es₁ addr) := by
  induction es₁ generalizing addr with
  | nil =>
    simp only [List.nil_append, buildInstrs, appendBuild, List.length_nil, Int.natCast_zero, Int.mul_zero,
      Int.add_zero]
    cases buildInstrs ls es₂ addr <;> simp [Except.map]
  | cons e rest ih =>
    obtain ⟨k, line, it⟩ := e
    cases it with
    | str s =>
      simp only [List.cons_append, buildInstrs]
      by_cases h1 : s = "ecall"
      · simp only [h1, if_true, ih, appendBuild_map_cons]
      · by_cases h2 : s = "ebreak"
        · subst h2
          have hne : ("ebreak" : String) ≠ "ecall" := by decide
          simp only [if_neg hne, if_true, ih, appendBuild_map_cons]
        · simp only [if_neg h1, if_neg h2, ih]
    | grp pi =>
      simp only [List.cons_append, buildInstrs]
      cases instantiate ls addr k line pi with
      | error x => rfl
      | ok i0 => simp only [ih, appendBuild_map_cons]
    | varDecl n ty vals => simp only [List.cons_append, buildInstrs, appendBuild]
    | strDecl n b => simp only [List.cons_append, buildInstrs, appendBuild]
    | zeroDecl n c => simp only [List.cons_append, buildInstrs, appendBuild]
    | directive d => simp only [List.cons_append, buildInstrs, appendBuild]

/-- instruction `j` of the program sits at address `4j` of the instruction memory -/
theorem instrAt_four_mul (prog : List Instr) (c : Option ICache) (j : Nat) :
    IMem.instrAt { prog := prog, cache := c } (4 * (j : Int)) = prog[j]? := by
  have h : (0 : Int) ≤ 4 * (j : Int) ∧ 4 * (j : Int) % 4 = 0 := by omega
  simp only [IMem.instrAt, h, and_self, if_true]
  congr 1
  omega

end ArchSim.Lemmas.C04
