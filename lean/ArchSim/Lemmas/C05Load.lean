/-
C05 helper lemmas, part 8: how `load` uses the passes — the data pass starts from `dataInit` on a flat
RISC-V memory, the final memory is the data pass's memory, and the success case of `loadSeg`.
-/
import ArchSim.Lemmas.C05Seg
import ArchSim.Lemmas.C05Read

namespace ArchSim.Lemmas.C05
open ArchSim ArchSim.Asm ArchSim.Rv

/-- whatever happens after the data pass, the memory `load` leaves is the data pass's memory -/
theorem loadSeg_mem (s0 : St) (data text' : List Entry) :
    (loadSeg s0 data text').st.mem =
      (writeData data { mem := s0.mem, vars := [], ctr := 16384, err := none }).mem := by
  simp only [loadSeg]
  split
  · rfl
  · split
    · rfl
    · split
      · rfl
      · split
        · rfl
        · split <;> rfl

/-- on a flat RISC-V data memory the reset leaves the empty memory: the data pass starts in `dataInit` -/
theorem loadReset_flat (s : St) (m : Mem.Mem) (hm : s.mem = .flat m) (hc : m.cfg = Mem.riscvCfg) :
    ({ mem := (loadReset s).mem, vars := [], ctr := 16384, err := none } : DataOut) = dataInit := by
  simp only [loadReset, hm, MemSys.reset, Mem.Mem.reset, hc, dataInit]

/-- the success case of `loadSeg`, pass by pass -/
theorem loadSeg_ok (s0 : St) (data text' : List Entry) (expanded : List TEntry) (ls : Labels) (instrs : List Instr)
    (hd : (writeData data { mem := s0.mem, vars := [], ctr := 16384, err := none }).err = none)
    (he : expandAll (writeData data { mem := s0.mem, vars := [], ctr := 16384, err := none }).vars
      (text'.map fun (k, line, t) => (k, line, t.item)) = .ok expanded)
    (hl : processLabels expanded (text'.filterMap fun (k, _, t) => t.lbl.map fun l => (k, l)) [] 0 = .ok ls)
    (hb : buildInstrs ls expanded 0 = .ok instrs) (hlen : instrs.length ≤ 4096) :
    loadSeg s0 data text' =
      { st := { s0 with mem := (writeData data { mem := s0.mem, vars := [], ctr := 16384, err := none }).mem,
                        imem := { s0.imem with prog := instrs } },
        err := none } := by
  simp only [loadSeg, hd, he, hl, hb, show ¬ instrs.length > 4096 by omega, if_false]

end ArchSim.Lemmas.C05
