/-
C08, neighbour invariant of the pipeline: the instructions in the IF/ID, ID/EX and EX/MEM latches
(resp. the preserved latches under a stall) are consecutively fetched program instructions, so the
two latches below a decoding instruction hold its fall-through neighbours. Needed to discharge the
decode verification condition `RawFree` from the static `HazardFree` hypothesis.
-/
import ArchSim.Lemmas.C02Conv

namespace ArchSim.Pipe
open ArchSim ArchSim.Rv

/-- The latch holds the program instruction stored at its address. -/
def AddrOK (prog : List Instr) (l : Option Latch) : Prop :=
  ∀ x, l = some x → 0 ≤ x.addr ∧ x.addr % 4 = 0 ∧ prog[(x.addr / 4).toNat]? = some x.instr

/-- `b` directly follows `a` in fetch order. -/
def Follows (a b : Option Latch) : Prop := ∀ x y, a = some x → b = some y → x.addr + 4 = y.addr

/-- The youngest latch was fetched just before the current pc. -/
def AtPc (l : Option Latch) (pc : Int) : Prop := ∀ x, l = some x → x.addr + 4 = pc

@[simp] theorem AddrOK_none (prog : List Instr) : AddrOK prog none := by intro x h; cases h
@[simp] theorem Follows_none_left (b : Option Latch) : Follows none b := by intro x y h; cases h
@[simp] theorem Follows_none_right (a : Option Latch) : Follows a none := by intro x y _ h; cases h
@[simp] theorem AtPc_none (pc : Int) : AtPc none pc := by intro x h; cases h

/-- Consecutiveness of the youngest three entries, by stall mode. -/
def Consec (p : PSt) : Prop :=
  match p.stalled with
  | none => AtPc p.l0 p.st.pc ∧ Follows p.l1 p.l0 ∧ Follows p.l2 p.l1
  | some st => AtPc p.l0 p.st.pc ∧ Follows st.p0 p.l0 ∧ (st.k = 2 → Follows st.p1 st.p0)

structure NInv (p : PSt) : Prop where
  a0 : AddrOK p.st.imem.prog p.l0
  a1 : AddrOK p.st.imem.prog p.l1
  a2 : AddrOK p.st.imem.prog p.l2
  aS : ∀ st, p.stalled = some st → AddrOK p.st.imem.prog st.p0 ∧ AddrOK p.st.imem.prog st.p1
  consec : Consec p

theorem NInv_init (st : St) (hz : Bool) : NInv (PSt.init st hz) := by
  constructor <;> simp [PSt.init, Consec]

theorem AddrOK_setFlag {prog : List Instr} {l : Option Latch} (h : AddrOK prog l) : AddrOK prog (setFlag l) := by
  cases l with
  | none => simp
  | some x => intro y hy; simp at hy; subst hy; exact h x rfl

theorem Follows_setFlag_left {a b : Option Latch} (h : Follows a b) : Follows (setFlag a) b := by
  cases a with
  | none => simp
  | some x => intro x' y hx hy; simp at hx; subst hx; exact h x y rfl hy

theorem Follows_setFlag_right {a b : Option Latch} (h : Follows a b) : Follows a (setFlag b) := by
  cases b with
  | none => simp
  | some y => intro x y' hx hy; simp at hy; subst hy; exact h x y hx rfl

end ArchSim.Pipe

namespace ArchSim.Pipe
open ArchSim ArchSim.Rv

/-- `l'` is `l` after a stage: same instruction, same address (or a bubble). -/
def SameAddr (l l' : Option Latch) : Prop :=
  ∀ x', l' = some x' → ∃ x, l = some x ∧ x'.addr = x.addr ∧ x'.instr = x.instr

theorem SameAddr.addrOK {prog : List Instr} {l l' : Option Latch} (h : SameAddr l l') (ha : AddrOK prog l) :
    AddrOK prog l' := by
  intro x' hx'
  obtain ⟨x, hx, e1, e2⟩ := h x' hx'
  rw [e1, e2]; exact ha x hx

theorem SameAddr.follows_right {a l l' : Option Latch} (h : SameAddr l l') (hf : Follows a l) : Follows a l' := by
  intro x y' hx hy'
  obtain ⟨y, hy, e1, _⟩ := h y' hy'
  rw [e1]; exact hf x y hx hy

theorem SameAddr.follows_left {b l l' : Option Latch} (h : SameAddr l l') (hf : Follows l b) : Follows l' b := by
  intro x' y hx' hy
  obtain ⟨x, hx, e1, _⟩ := h x' hx'
  rw [e1]; exact hf x y hx hy

theorem SameAddr.atPc {l l' : Option Latch} {pc : Int} (h : SameAddr l l') (hf : AtPc l pc) : AtPc l' pc := by
  intro x' hx'
  obtain ⟨x, hx, e1, _⟩ := h x' hx'
  rw [e1]; exact hf x hx

theorem SameAddr.refl (l : Option Latch) : SameAddr l l := fun x hx => ⟨x, hx, rfl, rfl⟩
theorem SameAddr.none (l : Option Latch) : SameAddr l none := fun x hx => by cases hx

theorem sameAddr_id (p : PSt) : SameAddr (idInput p) (idOut p) := by
  unfold idOut
  cases h : idInput p with
  | none => exact SameAddr.none _
  | some f => intro x' hx'; rw [idStage_some] at hx'; cases hx'; exact ⟨f, rfl, rfl, rfl⟩

theorem sameAddr_ex (p : PSt) (hex : (exOut p).fault = none) : SameAddr (exInput p) (exOut p).latch := by
  unfold exOut at hex ⊢
  cases h : exInput p with
  | none => rw [exStage_none]; exact SameAddr.none _
  | some d =>
    rw [h] at hex
    obtain ⟨e, he, hi, _, ha, _⟩ := exStage_facts _ d p.l2 p.l3 hex
    intro x' hx'; rw [he] at hx'; cases hx'; exact ⟨d, rfl, ha, hi⟩

theorem sameAddr_setFlag (l : Option Latch) : SameAddr l (setFlag l) := by
  cases l with
  | none => exact SameAddr.none _
  | some x => intro x' hx'; simp at hx'; subst hx'; exact ⟨x, rfl, rfl, rfl⟩

/-- The freshly fetched latch sits at the old pc and holds the program instruction there. -/
theorem ifOut_addr (p : PSt) (hI : PInv p) (hs : p.stalled = none) :
    AddrOK p.st.imem.prog (ifOut p).2 ∧ AtPc (ifOut p).2 (ifOut p).1.pc ∧
      (∀ x, (ifOut p).2 = some x → x.addr = p.st.pc) ∧
      ((ifOut p).2 = none → (ifOut p).1.pc = p.st.pc) := by
  cases hi : p.st.imem.instrAt p.st.pc with
  | none =>
    rw [ifOut_noinstr p hs hi]
    refine ⟨?_, ?_, ?_, ?_⟩
    · exact AddrOK_none _
    · exact AtPc_none _
    · intro x h; cases h
    · intro _; rfl
  | some i =>
    rw [ifOut_instr p hs i hi hI.icoh.fetchSound]
    refine ⟨?_, ?_, ?_, fun h => by cases h⟩
    · intro x hx; cases hx
      unfold IMem.instrAt at hi
      split at hi
      · rename_i hpc; exact ⟨hpc.1, hpc.2, hi⟩
      · cases hi
    · intro x hx; cases hx; rfl
    · intro x hx; cases hx; rfl

end ArchSim.Pipe

namespace ArchSim.Pipe
open ArchSim ArchSim.Rv

theorem idInput_addrOK (p : PSt) (hN : NInv p) : AddrOK p.st.imem.prog (idInput p) := by
  unfold idInput; split
  · exact hN.a0
  · rename_i st hs; exact (hN.aS st hs).1

theorem exInput_addrOK (p : PSt) (hN : NInv p) : AddrOK p.st.imem.prog (exInput p) := by
  unfold exInput; split
  · exact hN.a1
  · rename_i st hs; split
    · exact AddrOK_none _
    · exact (hN.aS st hs).2

/-- The instruction in EX was fetched just before the one in ID. -/
theorem follows_ex_id (p : PSt) (hI : PInv p) (hN : NInv p) : Follows (exInput p) (idInput p) := by
  have hc := hN.consec
  have hsh := hI.shape
  unfold Consec at hc; unfold Shape at hsh
  unfold exInput idInput
  rcases Option.eq_none_or_eq_some p.stalled with hs | ⟨st, hs⟩
  · rw [hs] at hc ⊢; exact hc.2.1
  · rw [hs] at hc hsh ⊢
    dsimp only
    rcases hsh with ⟨hk, _⟩ | ⟨hk, _⟩
    · rw [if_pos hk]; exact Follows_none_left _
    · rw [if_neg (by omega)]; exact hc.2.2 hk

/-- The youngest latch after IF sits just before the new pc and directly follows the input of ID. -/
theorem youngest_facts (p : PSt) (hI : PInv p) (hN : NInv p) :
    AddrOK p.st.imem.prog (ifOut p).2 ∧ AtPc (ifOut p).2 (ifOut p).1.pc ∧ Follows (idInput p) (ifOut p).2 := by
  have hc := hN.consec
  unfold Consec at hc
  rcases Option.eq_none_or_eq_some p.stalled with hs | ⟨st, hs⟩
  · obtain ⟨h1, h2, h3, _⟩ := ifOut_addr p hI hs
    rw [hs] at hc
    refine ⟨h1, h2, ?_⟩
    unfold idInput; rw [hs]
    intro x y hx hy
    rw [h3 y hy]; exact hc.1 x hx
  · rw [hs] at hc
    rw [ifOut_stalled p st hs]
    refine ⟨hN.a0, hc.1, ?_⟩
    unfold idInput; rw [hs]; exact hc.2.1

end ArchSim.Pipe

namespace ArchSim.Pipe
open ArchSim ArchSim.Rv

/-- The preserved latches of the next stall bookkeeping come from `l0`, `l1` or the old bookkeeping. -/
theorem nextStall_parts (old : Option Stall) (picked : Option Nat) (l0 l1 : Option Latch) (st' : Stall)
    (h : nextStall old picked l0 l1 = some st') :
    (old = none ∧ st'.p0 = setFlag l0 ∧ (st'.p1 = setFlag l1 ∨ st'.p1 = none) ∧ (st'.k = 2 → st'.p1 = setFlag l1)) ∨
    (∃ st, old = some st ∧ st'.p0 = st.p0 ∧ st'.p1 = st.p1 ∧ (picked = none → st'.k = st.k)) := by
  cases old with
  | none =>
    cases picked with
    | none => simp at h
    | some k =>
      rw [nextStall_none_some] at h; cases h
      left
      refine ⟨rfl, rfl, ?_, ?_⟩
      · dsimp only; split
        · exact Or.inl rfl
        · exact Or.inr rfl
      · intro hk; dsimp only at hk ⊢; rw [if_pos hk]
  | some st =>
    right
    cases picked with
    | none =>
      rw [nextStall_some_none] at h
      split at h
      · cases h
      · cases h; exact ⟨st, rfl, rfl, rfl, fun _ => rfl⟩
    | some k =>
      simp only [nextStall] at h
      split at h
      · cases h
      · cases h; exact ⟨st, rfl, rfl, rfl, fun hc => by cases hc⟩

theorem NInv_of_parts (p o : PSt) (hI : PInv p) (hN : NInv p) (hex : (exOut p).fault = none)
    (himem : o.st.imem = (ifOut p).1.imem)
    (h0 : o.l0 = none ∨ o.l0 = (ifOut p).2) (h1 : o.l1 = none ∨ o.l1 = idOut p)
    (h2 : o.l2 = none ∨ o.l2 = (exOut p).latch)
    (hst : o.stalled = none ∨ ∃ k, o.stalled = nextStall p.stalled k p.l0 p.l1)
    (hcon : Consec o) : NInv o := by
  have hprog : o.st.imem.prog = p.st.imem.prog := by
    rw [himem]; exact (ifOut_facts p hI.icoh hI.progOK hI.ok0).2.1
  refine ⟨?_, ?_, ?_, ?_, hcon⟩
  · rw [hprog]; rcases h0 with h | h <;> rw [h]
    · exact AddrOK_none _
    · exact (youngest_facts p hI hN).1
  · rw [hprog]; rcases h1 with h | h <;> rw [h]
    · exact AddrOK_none _
    · exact (sameAddr_id p).addrOK (idInput_addrOK p hN)
  · rw [hprog]; rcases h2 with h | h <;> rw [h]
    · exact AddrOK_none _
    · exact (sameAddr_ex p hex).addrOK (exInput_addrOK p hN)
  · intro st' hs'
    rw [hprog]
    rcases hst with h | ⟨k, h⟩
    · rw [h] at hs'; cases hs'
    · rw [h] at hs'
      rcases nextStall_parts _ _ _ _ _ hs' with ⟨_, e0, e1, _⟩ | ⟨st, hs, e0, e1, _⟩
      · rw [e0]
        refine ⟨AddrOK_setFlag hN.a0, ?_⟩
        rcases e1 with e | e <;> rw [e]
        · exact AddrOK_setFlag hN.a1
        · exact AddrOK_none _
      · rw [e0, e1]; exact hN.aS st hs

end ArchSim.Pipe

namespace ArchSim.Pipe
open ArchSim ArchSim.Rv

/-- No stall is (re)started while a stall is in progress. -/
theorem pick_none_stalled (p : PSt) (hI : PInv p) (st : Stall) (hs : p.stalled = some st) :
    pickStall p.stalled (idOut p) (exOut p).latch = none := by
  have hsh := hI.shape
  unfold Shape at hsh; rw [hs] at hsh
  rw [hs]
  rcases hsh with ⟨hk, _⟩ | ⟨hk, _⟩
  · have hei : exInput p = none := by simp [exInput, hs, hk]
    rw [pickStall_k1 st hk, exOut_latch_of_none p hei]; rfl
  · exact pickStall_k2 st hk _ _

/-- Consecutiveness after a cycle without flush. -/
theorem Consec_noflush (p : PSt) (hI : PInv p) (hN : NInv p) (hex : (exOut p).fault = none)
    (s' : St) (n3 n4 : Option Latch) (hpc : s'.pc = (ifOut p).1.pc) :
    Consec { p with st := s', l0 := (ifOut p).2, l1 := idOut p, l2 := (exOut p).latch, l3 := n3, l4 := n4,
                    stalled := nextStall p.stalled (pickStall p.stalled (idOut p) (exOut p).latch) p.l0 p.l1 } := by
  obtain ⟨_, y1, y2⟩ := youngest_facts p hI hN
  have f12 := follows_ex_id p hI hN
  unfold Consec
  dsimp only
  rw [hpc]
  cases hns : nextStall p.stalled (pickStall p.stalled (idOut p) (exOut p).latch) p.l0 p.l1 with
  | none =>
    exact ⟨y1, (sameAddr_id p).follows_left y2,
      (sameAddr_ex p hex).follows_left ((sameAddr_id p).follows_right f12)⟩
  | some st' =>
    dsimp only
    rcases nextStall_parts _ _ _ _ _ hns with ⟨hold, e0, _, e2⟩ | ⟨st, hold, e0, e1, ek⟩
    · have hid : idInput p = p.l0 := by simp [idInput, hold]
      have hei : exInput p = p.l1 := by simp [exInput, hold]
      rw [hid] at y2 f12; rw [hei] at f12
      refine ⟨y1, by rw [e0]; exact Follows_setFlag_left y2, fun hk => ?_⟩
      rw [e0, e2 hk]
      exact Follows_setFlag_left (Follows_setFlag_right f12)
    · have hid : idInput p = st.p0 := by simp [idInput, hold]
      rw [hid] at y2
      refine ⟨y1, by rw [e0]; exact y2, fun hk => ?_⟩
      rw [e0, e1]
      have hc := hN.consec
      unfold Consec at hc; rw [hold] at hc
      apply hc.2.2
      rw [← ek (pick_none_stalled p hI st hold)]; exact hk

end ArchSim.Pipe

namespace ArchSim.Pipe
open ArchSim ArchSim.Rv

/-- The neighbour invariant is preserved by every non-faulting cycle. -/
theorem NInv_step (p : PSt) (hI : PInv p) (hN : NInv p) (hf : (step p).fault = none) : NInv (step p).p := by
  obtain ⟨hex, hme⟩ := (step_fault_none_iff p).1 hf
  rw [step_nofault p hex hme]
  dsimp only
  cases h4 : latchFlush (wbOut p).2 with
  | some a =>
    rw [finishStep_flush4 _ _ _ _ _ _ _ a h4]
    apply NInv_of_parts p _ hI hN hex
    · simp [stallBump_imem, memOut_imem]
    · exact Or.inl rfl
    · exact Or.inl rfl
    · exact Or.inl rfl
    · exact Or.inl rfl
    · simp [Consec]
  | none =>
    cases h3 : latchFlush (memOut p).latch with
    | some a =>
      rw [finishStep_flush3 _ _ _ _ _ _ _ a h4 h3]
      apply NInv_of_parts p _ hI hN hex
      · simp [stallBump_imem, memOut_imem]
      · exact Or.inl rfl
      · exact Or.inl rfl
      · exact Or.inl rfl
      · exact Or.inl rfl
      · simp [Consec]
    | none =>
      cases h2 : latchFlush (exOut p).latch with
      | some a =>
        rw [finishStep_flush2 _ _ _ _ _ _ _ a h4 h3 h2, (flush2_mode p hI hex a h2).2.2]
        apply NInv_of_parts p _ hI hN hex
        · simp [stallBump_imem, memOut_imem]
        · exact Or.inl rfl
        · exact Or.inl rfl
        · exact Or.inr rfl
        · exact Or.inl rfl
        · simp [Consec]
      | none =>
        rw [finishStep_noflush _ _ _ _ _ _ _ h4 h3 h2]
        apply NInv_of_parts p _ hI hN hex
        · simp [stallBump_imem, memOut_imem]
        · exact Or.inr rfl
        · exact Or.inr rfl
        · exact Or.inr rfl
        · exact Or.inr ⟨_, rfl⟩
        · exact Consec_noflush p hI hN hex _ _ _ (by simp [stallBump_pc, memOut_pc])

theorem NInv_run (p : PSt) (hI : PInv p) (hN : NInv p) : ∀ n, runOK n p → NInv (pipeRun n p)
  | 0, _ => hN
  | n + 1, h =>
    NInv_step _ (PInv_run p hI n (runOK_succ h).1) (NInv_run p hI hN n (runOK_succ h).1) (runOK_succ h).2

end ArchSim.Pipe
