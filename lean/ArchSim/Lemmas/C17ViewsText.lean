/-
C17 (tables) — helper lemmas, part 5: the instruction text and the cycle mark of the TOY memory table.
-/
import ArchSim.Lemmas.C17ViewsToy

namespace ArchSim.Lemmas.C17Views
open ArchSim ArchSim.Views ArchSim.Toy

theorem decode_bounds (w : Nat) : (decode w).opcode ≤ 12 ∧ (decode w).addr < 4096 := by
  simp only [decode]
  constructor
  · split <;> omega
  · omega

theorem mnemonic_length (op : Nat) : 2 ≤ (mnemonic op).length := by
  unfold mnemonic; split <;> decide

/-- Shape of `str(instruction)`: the mnemonic, followed by `" 0x"` and three hex digits of the address
section exactly for the opcodes 0–7 (the instructions with an operand). -/
theorem toyInstrRepr_eq (w : Nat) :
    toyInstrRepr w =
      if (decode w).opcode ≤ 7 then mnemonic (decode w).opcode ++ " 0x" ++ upHex 3 (decode w).addr
      else mnemonic (decode w).opcode := rfl

theorem toyInstrRepr_length (w : Nat) : 2 ≤ (toyInstrRepr w).length := by
  rw [toyInstrRepr_eq]
  have := mnemonic_length (decode w).opcode
  split
  · simp only [String.length_append]; omega
  · exact this

/-- An instruction text is never the placeholder `"-"`. -/
theorem toyInstrRepr_ne_dash (w : Nat) : toyInstrRepr w ≠ "-" := by
  intro h
  have := toyInstrRepr_length w
  rw [h] at this
  revert this; decide

theorem cycleText_cases (t : TSim) :
    (t.nextCycle = 2 ∧ cycleText t = "1") ∨ (t.nextCycle ≠ 2 ∧ cycleText t = "2") := by
  unfold cycleText
  by_cases h : t.nextCycle = 2
  · left; simp [h]
  · right; simp [h]

theorem cycleText_ne_empty (t : TSim) : cycleText t ≠ "" := by
  rcases cycleText_cases t with ⟨_, h⟩ | ⟨_, h⟩ <;> rw [h] <;> decide

theorem isCurrent_iff (t : TSim) (a : Int) :
    isCurrent t a = true ↔ 0 ≤ a ∧ t.s.addrCur = some a.toNat := by
  simp only [isCurrent, decide_eq_true_eq]
  constructor
  · rintro ⟨h1, h2⟩; exact ⟨h2, h1⟩
  · rintro ⟨h1, h2⟩; exact ⟨h2, h1⟩

theorem isInstrAddr_iff (t : TSim) (a : Int) :
    isInstrAddr t a = true ↔ ∃ mp, t.s.maxPc = some mp ∧ a ≤ mp := by
  unfold isInstrAddr
  split
  · next mp h => simp [h]
  · next h => simp [h]

end ArchSim.Lemmas.C17Views
