/-
C03 (program level), part 1: the relation between a cached data-memory system and the flat memory it
represents, at the level of `DSys` (`CRep`) and of `Rv.MemSys` (`MRel`), and what one accepted read /
write does to it.  Built on `step_agrees` (C03, one operation against the flat reference) and on the
invariant preservation of C09 (`erase_commutes_read` / `erase_commutes_write`).
-/
import ArchSim.Props.C03
import ArchSim.Props.C09
import ArchSim.Model.Rv

namespace ArchSim.Lemmas.C03Prog
open ArchSim ArchSim.Cache ArchSim.Mem ArchSim.Rv ArchSim.Spec.CacheAbs ArchSim.Spec.TagCache

/-- The data-cache system `s` (replacement policy LRU if `l`, else PLRU) represents the flat memory
    `m`: both invariants of reachable cache states hold (`CInv` of C03/C12 — it contains `GeoOK s.geo`
    — and `Inv` of C09), the associativity suits the policy (`0 < assoc`, PLRU ⇒ a power of two), `m`
    is a well-formed RISC-V data memory, and the logical contents of `s` are the cells of `m`. -/
structure CRep (l : Bool) (s : DSys Repl.Pol) (m : Mem.Mem) : Prop where
  cinv  : CInv (Repl.Pol.WF s.geo.assoc) s
  inv9  : ArchSim.Lemmas.C09.Inv (Repl.Pol.WF s.geo.assoc) s
  assoc : ArchSim.Lemmas.C09.AssocOK l s.geo.assoc
  memOK : ArchSim.Lemmas.C03.MemOK m
  log   : ∀ a : Int, logical s a = m.cells ((wrap32 a : Nat) : Int)

theorem CRep.polOK {l : Bool} {s : DSys Repl.Pol} {m : Mem.Mem} (h : CRep l s m) :
    PolicyOK (polOps l) s.geo.assoc (Repl.Pol.WF s.geo.assoc) :=
  ArchSim.Lemmas.C03.pol_ok l s.geo.assoc h.assoc.1 h.assoc.2

theorem accepted_split {bits : Nat} {a : Int} (h : Accepted bits a) :
    widthOK bits ∧ inWord bits a ∧ inData a := h

/-- An accepted read through the cache returns the flat value and keeps the representation. -/
theorem CRep.read {l : Bool} {s : DSys Repl.Pol} {m : Mem.Mem} (h : CRep l s m) {bits : Nat} {a : Int}
    (hacc : Accepted bits a) (c : Bool) :
    ∃ v, (s.read (polOps l) bits a c).res = .ok v ∧ Mem.read m bits a = some (.ok v) ∧
      CRep l (s.read (polOps l) bits a c).sys m := by
  obtain ⟨hb, hw, hin⟩ := accepted_split hacc
  obtain ⟨⟨r1, r2, r3⟩, hgeo, _, hag⟩ :=
    ArchSim.Lemmas.C03.step_agrees (P := polOps l) h.polOK ⟨h.cinv, h.memOK, h.log⟩ (.read bits a c) hb
  have hacc' : (Spec.CacheAbs.Op.read bits a c).accepted := ⟨hw, hin⟩
  have hfs : ArchSim.Spec.CacheAbs.flatStep m (.read bits a c) = (m, Mem.read m bits a) := by
    unfold ArchSim.Spec.CacheAbs.flatStep; rw [if_pos hacc']
  unfold agrees at hag
  rw [if_pos hacc', hfs] at hag
  rw [hfs] at r2 r3
  obtain ⟨v, hv1, hv2⟩ := hag
  have hgeo' : (s.read (polOps l) bits a c).sys.geo = s.geo := hgeo
  have h9 := (ArchSim.Props.C09.erase_commutes_read (P := polOps l)
    (ArchSim.Lemmas.C09.polOps_ok h.assoc) h.inv9 hacc c).2.2.1
  exact ⟨v, hv1, hv2, ⟨by rw [hgeo']; exact r1, by rw [hgeo']; exact h9, by rw [hgeo']; exact h.assoc,
    r2, r3⟩⟩

/-- An accepted write of a value that fits through the cache succeeds, the flat write succeeds, and the
    representation is kept (write-back and write-through). -/
theorem CRep.write {l : Bool} {s : DSys Repl.Pol} {m : Mem.Mem} (h : CRep l s m) {bits : Nat} {a : Int}
    (hacc : Accepted bits a) {v : Nat} (hv : v < 2 ^ bits) :
    ∃ m', (s.write (polOps l) bits a v false).res = .ok 0 ∧ Mem.write m bits a v = some (m', none) ∧
      CRep l (s.write (polOps l) bits a v false).sys m' := by
  obtain ⟨hb, hw, hin⟩ := accepted_split hacc
  obtain ⟨⟨r1, r2, r3⟩, hgeo, _, _⟩ :=
    ArchSim.Lemmas.C03.step_agrees (P := polOps l) h.polOK ⟨h.cinv, h.memOK, h.log⟩ (.write bits a v)
      ⟨hb, hv⟩
  have hx := ArchSim.Lemmas.C03.wrap32_lt a
  have hw' : wrap32 a % 4 + bits / 8 ≤ 4 := hw
  obtain ⟨m', hwr, _, _, _⟩ := ArchSim.Lemmas.C03.write_riscv h.memOK bits hb a v hin (by omega)
  have hacc' : (Spec.CacheAbs.Op.write bits a v).accepted := ⟨hw, hin⟩
  have hfs : (ArchSim.Spec.CacheAbs.flatStep m (.write bits a v)).1 = m' := by
    unfold ArchSim.Spec.CacheAbs.flatStep; rw [if_pos hacc']; simp only [hwr]
  rw [hfs] at r2 r3
  have hgeo' : (s.write (polOps l) bits a v false).sys.geo = s.geo := hgeo
  obtain ⟨_, _, h9, hres⟩ := ArchSim.Props.C09.erase_commutes_write (P := polOps l)
    (ArchSim.Lemmas.C09.polOps_ok h.assoc) (ArchSim.Lemmas.C09.polOps_idem l _) h.inv9 hacc v
  exact ⟨m', hres, hwr, ⟨by rw [hgeo']; exact r1, by rw [hgeo']; exact h9, by rw [hgeo']; exact h.assoc,
    r2, r3⟩⟩

/-! ### the memory systems of the architectural state -/

/-- The memory system `mc` is a data cache that represents the flat memory system `mf`. -/
def MRel (mc mf : MemSys) : Prop :=
  ∃ (l : Bool) (s : DSys Repl.Pol) (m : Mem.Mem), mc = .cached l s ∧ mf = .flat m ∧ CRep l s m

/-- An accepted read (counted or not, on either side): both sides return the same value, the flat
    side is unchanged and adds no cycles, the relation is kept. -/
theorem MRel.read {mc mf : MemSys} (h : MRel mc mf) {bits : Nat} {a : Int} (hacc : Accepted bits a)
    (c c' : Bool) :
    ∃ v, (mc.read bits a c).res = .ok v ∧ mf.read bits a c' = { mem := mf, res := .ok v, extra := 0 } ∧
      MRel (mc.read bits a c).mem mf := by
  obtain ⟨l, s, m, rfl, rfl, hr⟩ := h
  obtain ⟨v, h1, h2, h3⟩ := hr.read hacc c
  refine ⟨v, h1, ?_, l, _, m, rfl, rfl, h3⟩
  simp only [MemSys.read, h2, liftMem]

/-- An accepted write of a value that fits: both sides succeed, the flat side adds no cycles, the
    relation is kept. -/
theorem MRel.write {mc mf : MemSys} (h : MRel mc mf) {bits : Nat} {a : Int} (hacc : Accepted bits a)
    {v : Nat} (hv : v < 2 ^ bits) :
    (mc.write bits a v false).res = .ok 0 ∧ (mf.write bits a v false).res = .ok 0 ∧
      MRel (mc.write bits a v false).mem (mf.write bits a v false).mem := by
  obtain ⟨l, s, m, rfl, rfl, hr⟩ := h
  obtain ⟨m', h1, h2, h3⟩ := hr.write hacc hv
  refine ⟨h1, ?_, l, _, m', rfl, ?_, h3⟩ <;> simp only [MemSys.write, h2]

end ArchSim.Lemmas.C03Prog
