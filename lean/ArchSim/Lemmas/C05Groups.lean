/-
C05 / C04 helper lemmas, part 2: expansion of each pseudo-instruction, the instruction objects built
from the group (for any label table and any address) and the effect of executing the group.
-/
import ArchSim.Lemmas.C05Li

namespace ArchSim.Lemmas.C05
open ArchSim ArchSim.Asm ArchSim.Rv

/-! ### what `expandOne` produces -/

/-- text entries of `lui rd, hi; addi rd, rd, lo` for the constant `a` -/
def luiAddiEntries (k : Nat) (line : String) (rd : Nat) (a : Int) : List TEntry :=
  [(k, line, .grp (.utype "lui" rd (hiLo a).1)), (k, line, .grp (.rri "addi" rd rd (hiLo a).2))]

/-- text entries `li rd, c` expands to -/
def liEntries (k : Nat) (line : String) (rd : Nat) (c : Int) : List TEntry :=
  if c > 2047 ∨ c < -2048 then luiAddiEntries k line rd c else [(k, line, .grp (.rri "addi" rd 0 c))]

theorem expandOne_li (vars : Vars) (k : Nat) (line : String) (rd : Nat) (c : Int) :
    expandOne vars (k, line, .grp (.li rd c)) = .ok (liEntries k line rd c) := by
  simp only [expandOne, liEntries, luiAddiEntries]
  split <;> rfl

theorem expandOne_memPseudo (vars : Vars) (k : Nat) (line : String) (mn : String) (rd : Nat) (v : String)
    (idx : Option Int) (a sz : Int) (h : lookupVar vars v = some (a, sz)) :
    expandOne vars (k, line, .grp (.memPseudo mn rd v idx)) =
      .ok (luiAddiEntries k line rd (a + sz * idx.getD 0) ++
        if mn = "la" then [] else [(k, line, .grp (.mem mn rd 0 rd))]) := by
  simp only [expandOne, h, luiAddiEntries]
  split <;> simp

theorem expandOne_memPseudo_unknown (vars : Vars) (k : Nat) (line : String) (mn : String) (rd : Nat) (v : String)
    (idx : Option Int) (h : lookupVar vars v = none) :
    expandOne vars (k, line, .grp (.memPseudo mn rd v idx)) = .error (.parser "ParserVariableException" k line) := by
  simp only [expandOne, h]

theorem expandOne_sPseudo (vars : Vars) (k : Nat) (line : String) (mn : String) (rs : Nat) (v : String)
    (idx : Option Int) (rt : Nat) (a sz : Int) (h : lookupVar vars v = some (a, sz)) :
    expandOne vars (k, line, .grp (.sPseudo mn rs v idx rt)) =
      .ok (luiAddiEntries k line rt (a + sz * idx.getD 0) ++ [(k, line, .grp (.mem mn rs 0 rt))]) := by
  simp only [expandOne, h, luiAddiEntries]
  simp

theorem expandOne_sPseudo_unknown (vars : Vars) (k : Nat) (line : String) (mn : String) (rs : Nat) (v : String)
    (idx : Option Int) (rt : Nat) (h : lookupVar vars v = none) :
    expandOne vars (k, line, .grp (.sPseudo mn rs v idx rt)) = .error (.parser "ParserVariableException" k line) := by
  simp only [expandOne, h]

theorem expandOne_nop (vars : Vars) (k : Nat) (line : String) :
    expandOne vars (k, line, .str "nop") = .ok [(k, line, .grp (.rri "addi" 0 0 0))] := by
  simp only [expandOne]

theorem expandOne_mv (vars : Vars) (k : Nat) (line : String) (rd rs : Nat) :
    expandOne vars (k, line, .grp (.mv rd rs)) = .ok [(k, line, .grp (.rri "addi" rd rs 0))] := by
  simp only [expandOne]

/-! ### instruction objects of the groups, for any label table and any address -/

theorem build_luiAddi (ls : Labels) (addr : Int) (k : Nat) (line : String) (rd : Nat) (a : Int) :
    buildInstrs ls (luiAddiEntries k line rd a) addr = .ok (luiAddi rd a) := by
  simp only [luiAddiEntries, buildInstrs, instantiate_lui, instantiate_addi, Except.map, luiAddi]

theorem build_li (ls : Labels) (addr : Int) (k : Nat) (line : String) (rd : Nat) (c : Int) :
    buildInstrs ls (liEntries k line rd c) addr = .ok (liInstrs rd c) := by
  simp only [liEntries, liInstrs]
  split
  · exact build_luiAddi ..
  · simp only [buildInstrs, instantiate_addi, Except.map]

theorem build_luiAddi_load (ls : Labels) (addr : Int) (k : Nat) (line : String) (rd : Nat) (a : Int)
    (mn : String) (op : Op) (hop : Op.ofMnemonic mn = some op) (hty : op.ty = .memI) :
    buildInstrs ls (luiAddiEntries k line rd a ++ [(k, line, .grp (.mem mn rd 0 rd))]) addr =
      .ok (luiAddi rd a ++ [mkInstr op rd rd 0 0]) := by
  simp only [luiAddiEntries, List.cons_append, List.nil_append, buildInstrs, instantiate_lui, instantiate_addi,
    instantiate_load ls _ k line mn op hop hty, Except.map, luiAddi]

theorem build_luiAddi_store (ls : Labels) (addr : Int) (k : Nat) (line : String) (rs rt : Nat) (a : Int)
    (mn : String) (op : Op) (hop : Op.ofMnemonic mn = some op) (hty : op.ty = .s) :
    buildInstrs ls (luiAddiEntries k line rt a ++ [(k, line, .grp (.mem mn rs 0 rt))]) addr =
      .ok (luiAddi rt a ++ [mkInstr op 0 rt rs 0]) := by
  simp only [luiAddiEntries, List.cons_append, List.nil_append, buildInstrs, instantiate_lui, instantiate_addi,
    instantiate_store ls _ k line mn op hop hty, Except.map, luiAddi]

/-! ### executing the groups -/

/-- `li rd, c`: afterwards `rd` holds `c mod 2^32`; the whole state is otherwise unchanged.  The short
    form reads `x0`, which holds 0 in every reachable state. -/
theorem runSeq_li (rd : Nat) (c : Int) (s : St) (h0 : s.regs 0 = 0) :
    runSeq (liInstrs rd c) s = { st := s.setReg rd (wrapU c), fault := none } := by
  simp only [liInstrs]
  split
  · exact runSeq_luiAddi rd c s
  · next h => simp only [runSeq, behavior_addi, small_core c h _ h0]

theorem runSeq_single (i : Instr) (s : St) : runSeq [i] s = behavior i s := by
  cases h : behavior i s with
  | mk st fault => cases fault <;> simp [runSeq, h]

theorem sext12_zero : sextImm 12 0 = 0 := by decide

theorem behavior_load (op : Op) (hty : op.ty = .memI) (rd rs : Nat) (imm : Int) (s : St) :
    behavior (mkInstr op rd rs 0 imm) s =
      (let o := s.mem.read (accessBits op) ((s.regs rs : Int) + sextImm 12 imm) true
       let s1 : St := { s with mem := o.mem, cycles := s.cycles + o.extra }
       match o.res with
       | .error e => { st := s1, fault := some (.mem e) }
       | .ok v => { st := s1.setReg rd (loadExt op v), fault := none }) := by
  cases op <;> simp [Op.ty] at hty <;> simp [behavior, mkInstr, Op.ty, storedImm] <;> split <;> simp_all

theorem behavior_store (op : Op) (hty : op.ty = .s) (rs1 rs2 : Nat) (imm : Int) (s : St) :
    behavior (mkInstr op 0 rs1 rs2 imm) s =
      (let addr : Int := ((s.regs rs1 + wrapU (sextImm 12 imm)) % 4294967296 : Nat)
       let o := s.mem.write (accessBits op) addr (s.regs rs2 % 2 ^ accessBits op) false
       let s1 : St := { s with mem := o.mem, cycles := s.cycles + o.extra }
       match o.res with
       | .error e => { st := s1, fault := some (.mem e) }
       | .ok _ => { st := s1, fault := none }) := by
  cases op <;> simp [Op.ty] at hty <;> simp [behavior, mkInstr, Op.ty, storedImm] <;> split <;> simp_all

/-- load by name, reduction form: the group behaves like the plain load `op rd, 0(rd)` executed in the
    state where `rd` already holds the element's address. -/
theorem runSeq_loadByName (op : Op) (rd : Nat) (a : Int) (s : St) :
    runSeq (luiAddi rd a ++ [mkInstr op rd rd 0 0]) s =
      behavior (mkInstr op rd rd 0 0) (s.setReg rd (wrapU a)) := by
  rw [runSeq_append_ok _ _ _ _ (runSeq_luiAddi rd a s), runSeq_single]

/-- store by name, reduction form -/
theorem runSeq_storeByName (op : Op) (rs rt : Nat) (a : Int) (s : St) :
    runSeq (luiAddi rt a ++ [mkInstr op 0 rt rs 0]) s =
      behavior (mkInstr op 0 rt rs 0) (s.setReg rt (wrapU a)) := by
  rw [runSeq_append_ok _ _ _ _ (runSeq_luiAddi rt a s), runSeq_single]

theorem wrapU_mod (a : Int) : (wrapU a + wrapU 0) % 4294967296 = wrapU a := by
  simp only [wrapU]; omega

/-- load by name, explicit form: one counted read of the access width at the element's address
    `a mod 2^32`; on success `rd` receives the (sign- or zero-extended) value. -/
theorem runSeq_loadByName_explicit (op : Op) (hty : op.ty = .memI) (rd : Nat) (hrd : 0 < rd ∧ rd < 32)
    (a : Int) (s : St) :
    runSeq (luiAddi rd a ++ [mkInstr op rd rd 0 0]) s =
      (let o := s.mem.read (accessBits op) (wrapU a : Nat) true
       match o.res with
       | .error e =>
         { st := { s with regs := Rv.setReg s.regs rd (wrapU a), mem := o.mem, cycles := s.cycles + o.extra },
           fault := some (.mem e) }
       | .ok v =>
         { st := { s with regs := Rv.setReg s.regs rd (loadExt op v), mem := o.mem, cycles := s.cycles + o.extra },
           fault := none }) := by
  rw [runSeq_loadByName, behavior_load op hty]
  simp only [St.setReg, setReg_same _ _ _ hrd, sext12_zero, Int.add_zero, setReg_setReg]

/-- store by name, explicit form: `rt` receives the element's address, then the low bits of `rs` are
    stored there; if `rs` and `rt` are the same register the value stored is the ADDRESS (the original
    content of the register has been overwritten by the address computation). -/
theorem runSeq_storeByName_explicit (op : Op) (hty : op.ty = .s) (rs rt : Nat) (hrt : 0 < rt ∧ rt < 32)
    (a : Int) (s : St) :
    runSeq (luiAddi rt a ++ [mkInstr op 0 rt rs 0]) s =
      (let data := if rs = rt then wrapU a else s.regs rs
       let o := s.mem.write (accessBits op) (wrapU a : Nat) (data % 2 ^ accessBits op) false
       let s1 : St := { s with regs := Rv.setReg s.regs rt (wrapU a), mem := o.mem, cycles := s.cycles + o.extra }
       match o.res with
       | .error e => { st := s1, fault := some (.mem e) }
       | .ok _ => { st := s1, fault := none }) := by
  rw [runSeq_storeByName, behavior_store op hty]
  have hd : Rv.setReg s.regs rt (wrapU a) rs = if rs = rt then wrapU a else s.regs rs := by
    by_cases h : rs = rt
    · subst h; simp only [setReg_same _ _ _ hrt, if_true]
    · simp only [setReg_other _ _ _ _ h, if_neg h]
  simp only [St.setReg, setReg_same _ _ _ hrt, sext12_zero, wrapU_mod, hd]

/-- `nop` = `addi x0, x0, 0` changes nothing at all. -/
theorem behavior_nop (s : St) : behavior (mkInstr .addi 0 0 0 0) s = { st := s, fault := none } := by
  rw [behavior_addi, St_setReg_invalid _ _ _ (by omega)]

/-- `mv rd, rs` = `addi rd, rs, 0` copies the register (values are `UInt32`, so the reduction modulo
    2^32 is the identity on reachable states). -/
theorem behavior_mv (rd rs : Nat) (s : St) :
    behavior (mkInstr .addi rd rs 0 0) s = { st := s.setReg rd (s.regs rs % 4294967296), fault := none } := by
  rw [behavior_addi, sext12_zero]
  simp [wrapU]

end ArchSim.Lemmas.C05
