/-
C03 helper lemmas, part 6: the public operations (`DSys.read`, `DSys.writeWB`, `DSys.writeWT`)
against `logical`.
-/
import ArchSim.Lemmas.C03Sys

namespace ArchSim.Lemmas.C03
open ArchSim ArchSim.Cache ArchSim.Mem ArchSim.Spec.ByteStore ArchSim.Lemmas.C18 ArchSim.Spec.CacheAbs

variable {σ : Type} {P : PolicyOps σ} {WFp : σ → Prop}

/-! ### the current content of a block -/

theorem wordAt_eq_getElem (ws : List Nat) (j : Nat) (h : j < ws.length) : wordAt ws j = ws[j] := by
  simp [wordAt, h]

/-- The block-aligned base of two addresses of the same block. -/
theorem blockBase_eq (ib bb : Nat) (a b : Int)
    (h1 : (decode ib bb a).setIdx = (decode ib bb b).setIdx)
    (h2 : (decode ib bb a).tag = (decode ib bb b).tag) :
    (decode ib bb a).blockBase = (decode ib bb b).blockBase := by
  rw [← decode_base, ← decode_base ib bb b, h1, h2]

/-- On a miss the block is fetched from the backing memory: the fetch succeeds and the fetched
    words hold the logical contents. -/
theorem fetch_spec {s : DSys σ} (hs : CInv WFp s) (addr : Int) (hin : inData addr)
    (hmiss : lookup s.sets (dec s addr).setIdx (dec s addr).tag = none) :
    ∃ ws, readBlockFromMem s.mem (dec s addr).blockBase s.geo.words 0 = .ok ws ∧
      ws.length = 2 ^ s.geo.blkBits ∧ (∀ x, x ∈ ws → x < 4294967296) ∧
      ∀ a, (dec s a).setIdx = (dec s addr).setIdx → (dec s a).tag = (dec s addr).tag →
        byteOf (wordAt ws (dec s a).blockOff) (dec s a).byteOff = logical s a := by
  have hmOK := CInvS_memOK hs.toCInvS
  have hrange : 16384 ≤ (dec s addr).blockBase ∧
      (dec s addr).blockBase + 2 ^ (s.geo.blkBits + 2) ≤ 4294967296 :=
    decode_range s.geo.idxBits s.geo.blkBits addr hs.geo.blk hin
  rw [pow_blk] at hrange
  obtain ⟨ws, h1, h2, h3⟩ := readBlockFromMem_ok hmOK (dec s addr).blockBase (2 ^ s.geo.blkBits) 0
    hrange.1 (by omega)
  refine ⟨ws, h1, h2, ?_, ?_⟩
  · intro x hx
    obtain ⟨j, hj, rfl⟩ := List.getElem_of_mem hx
    rw [← wordAt_eq_getElem ws j hj, h3 j (h2 ▸ hj)]
    exact memWord_lt hmOK _
  · intro a e1 e2
    have hl : lookup s.sets (dec s a).setIdx (dec s a).tag = none := by rw [e1, e2]; exact hmiss
    rw [logical_of_none hl, h3 _ (decode_blockOff_lt _ _ _),
      byteOf_memWord hmOK _ _ (decode_byteOff_lt _ _ _)]
    have := decode_full_eq s.geo.idxBits s.geo.blkBits a
    rw [blockBase_eq _ _ a addr e1 e2] at this
    rw [this, Nat.zero_add]

/-- On a hit the resident way holds the logical contents. -/
theorem hit_spec {s : DSys σ} (hs : CInv WFp s) (addr : Int) (w : Way Nat)
    (hhit : lookup s.sets (dec s addr).setIdx (dec s addr).tag = some w) :
    w.vals.length = 2 ^ s.geo.blkBits ∧ (∀ x, x ∈ w.vals → x < 4294967296) ∧
      ∀ a, (dec s a).setIdx = (dec s addr).setIdx → (dec s a).tag = (dec s addr).tag →
        byteOf (wordAt w.vals (dec s a).blockOff) (dec s a).byteOff = logical s a := by
  obtain ⟨_, hok, hv, _⟩ := lookup_some_valid hs.sets hhit
  refine ⟨hok.len hv, hok.lt hv, ?_⟩
  intro a e1 e2
  have hl : lookup s.sets (dec s a).setIdx (dec s a).tag = some w := by rw [e1, e2]; exact hhit
  rw [logical_of_some hl]

/-! ### `readBlockSys` -/

/-- `_read_block` for a valid data address: it succeeds (filling the cache and, under write-back,
    writing the displaced block back), keeps the invariant and the logical contents, and afterwards
    the block is resident with the returned values. -/
theorem readBlockSys_spec {s : DSys σ} (hP : PolicyOK P s.geo.assoc WFp) (hs : CInv WFp s)
    (addr : Int) (hin : inData addr) :
    ∃ s1 vals hit, s.readBlockSys P (dec s addr) = (s1, .ok (vals, hit)) ∧ CInv WFp s1 ∧
      s1.geo = s.geo ∧ s1.wt = s.wt ∧ (∀ a, logical s1 a = logical s a) ∧
      ∃ w, lookup s1.sets (dec s addr).setIdx (dec s addr).tag = some w ∧ w.vals = vals := by
  have hk : (dec s addr).setIdx < 2 ^ s.geo.idxBits := decode_setIdx_lt _ _ _
  obtain ⟨sets1, hrb, hsets1, hl1⟩ := readBlock_spec hP hs.sets (dec s addr) hk
  obtain ⟨hs1, hlog1⟩ := CInv_transfer hs { s with sets := sets1 } rfl rfl rfl hsets1 hl1
  unfold DSys.readBlockSys
  cases hlk : lookup s.sets (dec s addr).setIdx (dec s addr).tag with
  | some w =>
    rw [hlk] at hrb
    simp only [hrb, Option.map_some]
    exact ⟨_, _, _, rfl, hs1, rfl, rfl, hlog1, w, by rw [hl1]; exact hlk, rfl⟩
  | none =>
    rw [hlk] at hrb
    obtain ⟨ws, hf, hlen, hlt, hbytes⟩ := fetch_spec hs addr hin hlk
    simp only [hrb, Option.map_none, hf]
    obtain ⟨sets2, displaced, m', hwb, _, hdnone, hdsome, hall⟩ :=
      putBlock_spec (s := { s with sets := sets1 }) hP hs1 addr hin ws hlen hlt
    have hwb' : writeBlock P sets1 (dec s addr) ws = .ok (sets2, _, displaced) := hwb
    rw [hwb']
    simp only
    -- every state with the new sets and the right memory is fine
    have key : ∀ s3 : DSys σ, s3.geo = s.geo → s3.wt = s.wt → s3.sets = sets2 →
        s3.mem = (if s.wt = true then s.mem else m') →
        CInv WFp s3 ∧ (∀ a, logical s3 a = logical s a) ∧
        ∃ w, lookup s3.sets (dec s addr).setIdx (dec s addr).tag = some w ∧ w.vals = ws := by
      intro s3 hg hwt3 hsets3 hmem3
      obtain ⟨c1, c2, c3⟩ := hall s3 hg hsets3 hmem3
      have hlog : ∀ a, logical s3 a = logical s a := by
        intro a
        rw [c3 a]
        split
        · rename_i h
          exact hbytes a h.1 h.2
        · exact hlog1 a
      refine ⟨⟨c1, ?_⟩, hlog, c2⟩
      intro hwt a
      rw [hwt3] at hwt
      rw [hlog a, hmem3, if_pos hwt]
      exact hs.wtc hwt a
    by_cases hwt : s.wt = true
    · rw [if_pos hwt]
      obtain ⟨k1, k2, k3⟩ := key { s with sets := sets2 } rfl rfl rfl (by rw [if_pos hwt])
      exact ⟨_, _, _, rfl, k1, rfl, rfl, k2, k3⟩
    · rw [if_neg hwt]
      cases hd : displaced with
      | none =>
        obtain ⟨k1, k2, k3⟩ := key { s with sets := sets2 } rfl rfl rfl
          (by rw [if_neg hwt, hdnone hd])
        exact ⟨_, _, _, rfl, k1, rfl, rfl, k2, k3⟩
      | some bw =>
        obtain ⟨b, ws'⟩ := bw
        have hwbm : writeBlockToMem s.mem b ws' 0 = (m', none) := hdsome b ws' hd
        simp only [hwbm]
        obtain ⟨k1, k2, k3⟩ := key { s with sets := sets2, mem := m' } rfl rfl rfl
          (by rw [if_neg hwt])
        exact ⟨_, _, _, rfl, k1, rfl, rfl, k2, k3⟩

/-! ### reads -/

/-- The bytes of the accessed word, read through a way that is resident for `addr`. -/
theorem logical_same_word {s : DSys σ} (addr : Int) (w : Way Nat)
    (h : lookup s.sets (dec s addr).setIdx (dec s addr).tag = some w) (i : Nat)
    (hi : (dec s addr).byteOff + i < 4) :
    logical s (addr + (i : Int)) =
      byteOf (wordAt w.vals (dec s addr).blockOff) ((dec s addr).byteOff + i) := by
  have hd : dec s (addr + (i : Int)) =
      { dec s addr with full := wrap32 addr + i, byteOff := wrap32 addr % 4 + i } :=
    decode_add _ _ addr i hi
  have : lookup s.sets (dec s (addr + (i : Int))).setIdx (dec s (addr + (i : Int))).tag = some w := by
    rw [hd]; exact h
  rw [logical_of_some this, hd]
  rfl

/-- A read (of any offered width, aligned or not) at a valid data address: the cache is filled, the
    invariant and the logical contents are kept, and the result is `fromBlock` of a block holding
    the logical contents. -/
theorem read_inData {s : DSys σ} (hP : PolicyOK P s.geo.assoc WFp) (hs : CInv WFp s)
    (bits : Nat) (addr : Int) (counted : Bool) (hin : inData addr) :
    ∃ vals, (s.read P bits addr counted).res = fromBlock bits (dec s addr) vals ∧
      wordAt vals (dec s addr).blockOff < 4294967296 ∧
      (∀ i, (dec s addr).byteOff + i < 4 →
        byteOf (wordAt vals (dec s addr).blockOff) ((dec s addr).byteOff + i) =
          logical s (addr + (i : Int))) ∧
      CInv WFp (s.read P bits addr counted).sys ∧
      (∀ a, logical (s.read P bits addr counted).sys a = logical s a) ∧
      (s.read P bits addr counted).sys.geo = s.geo ∧ (s.read P bits addr counted).sys.wt = s.wt := by
  obtain ⟨s1, vals, hit, hr, hs1, hg1, hwt1, hlog1, w, hw, hwv⟩ := readBlockSys_spec hP hs addr hin
  have hr' : s.readBlockSys P (decode s.geo.idxBits s.geo.blkBits addr) = (s1, .ok (vals, hit)) := hr
  have hw1 : lookup s1.sets (dec s1 addr).setIdx (dec s1 addr).tag = some w := by
    show lookup s1.sets (decode s1.geo.idxBits s1.geo.blkBits addr).setIdx
      (decode s1.geo.idxBits s1.geo.blkBits addr).tag = some w
    rw [hg1]; exact hw
  obtain ⟨_, hok, hv, _⟩ := lookup_some_valid hs1.sets hw
  unfold DSys.read
  simp only [hr']
  refine ⟨vals, rfl, ?_, ?_, ?_⟩
  · rw [← hwv]; exact wordAt_lt _ _ (hok.lt hv)
  · intro i hi
    rw [← hlog1, ← hwv]
    have hd : dec s1 addr = dec s addr := by
      show decode s1.geo.idxBits s1.geo.blkBits addr = _; rw [hg1]
    have := logical_same_word (s := s1) addr w hw1 i (by rw [hd]; exact hi)
    rw [hd] at this
    exact this.symm
  · cases counted with
    | false =>
      simp only [Bool.false_eq_true, if_false]
      exact ⟨hs1, hlog1, hg1, hwt1⟩
    | true =>
      simp only [if_true]
      obtain ⟨c1, c2⟩ := CInv_same hs1
        { s1 with accesses := s1.accesses + 1, hits := s1.hits + (if hit = true then 1 else 0), lastHit := hit }
        rfl rfl rfl rfl
      exact ⟨c1, fun a => (c2 a).trans (hlog1 a), hg1, hwt1⟩

/-! ### the effect of a lane update on the logical contents -/

/-- The bytes `addr … addr+n-1` of an access within one word, in terms of decoded fields. -/
theorem inAccess_iff (ib bb : Nat) (addr a : Int) (n : Nat) (hoff : wrap32 addr % 4 + n ≤ 4) :
    (wrap32 addr ≤ wrap32 a ∧ wrap32 a < wrap32 addr + n) ↔
      ((decode ib bb a).setIdx = (decode ib bb addr).setIdx ∧
       (decode ib bb a).tag = (decode ib bb addr).tag ∧
       (decode ib bb a).blockOff = (decode ib bb addr).blockOff ∧
       (decode ib bb addr).byteOff ≤ (decode ib bb a).byteOff ∧
       (decode ib bb a).byteOff < (decode ib bb addr).byteOff + n) := by
  constructor
  · rintro ⟨h1, h2⟩
    have hi : wrap32 addr % 4 + (wrap32 a - wrap32 addr) < 4 := by omega
    have hw : wrap32 a = wrap32 (addr + ((wrap32 a - wrap32 addr : Nat) : Int)) := by
      rw [wrap32_add addr _ hi]; omega
    rw [decode_congr ib bb a _ hw, decode_add ib bb addr _ hi]
    refine ⟨rfl, rfl, rfl, ?_, ?_⟩
    · show wrap32 addr % 4 ≤ wrap32 addr % 4 + (wrap32 a - wrap32 addr); omega
    · show wrap32 addr % 4 + (wrap32 a - wrap32 addr) < wrap32 addr % 4 + n; omega
  · rintro ⟨h1, h2, h3, h4, h5⟩
    have e1 := decode_full_eq ib bb a
    have e2 := decode_full_eq ib bb addr
    rw [blockBase_eq ib bb a addr h1 h2, h3] at e1
    omega

theorem inAccess_sub (ib bb : Nat) (addr a : Int) (n : Nat) (hoff : wrap32 addr % 4 + n ≤ 4)
    (h : wrap32 addr ≤ wrap32 a ∧ wrap32 a < wrap32 addr + n) :
    wrap32 a - wrap32 addr = (decode ib bb a).byteOff - (decode ib bb addr).byteOff := by
  obtain ⟨h1, h2, h3, h4, h5⟩ := (inAccess_iff ib bb addr a n hoff).mp h
  have e1 := decode_full_eq ib bb a
  have e2 := decode_full_eq ib bb addr
  rw [blockBase_eq ib bb a addr h1 h2, h3] at e1
  omega

/-- Replacing the addressed lanes of the addressed word of a block that holds `L` yields a block
    that holds `L` updated at the written bytes. -/
theorem upd_eq (ib bb : Nat) (addr : Int) (bits v : Nat) (hb : widthOK bits)
    (hoff : inWord bits addr) (hv : v < 2 ^ bits) (L L' : Int → Nat) (block : List Nat)
    (hlen : (decode ib bb addr).blockOff < block.length)
    (hlt : wordAt block (decode ib bb addr).blockOff < 4294967296)
    (hL : ∀ a, (decode ib bb a).setIdx = (decode ib bb addr).setIdx →
      (decode ib bb a).tag = (decode ib bb addr).tag →
      byteOf (wordAt block (decode ib bb a).blockOff) (decode ib bb a).byteOff = L a)
    (hL' : ∀ a, L' a =
      if (decode ib bb a).setIdx = (decode ib bb addr).setIdx ∧
          (decode ib bb a).tag = (decode ib bb addr).tag then
        byteOf (wordAt (block.set (decode ib bb addr).blockOff
          (newWord bits (decode ib bb addr).byteOff (wordAt block (decode ib bb addr).blockOff) v))
          (decode ib bb a).blockOff) (decode ib bb a).byteOff
      else L a) (a : Int) :
    L' a = updBytes L addr (bits / 8) v a := by
  have hoff' : (decode ib bb addr).byteOff + bits / 8 ≤ 4 := hoff
  have hiff := inAccess_iff ib bb addr a (bits / 8) hoff
  rw [hL' a]
  unfold updBytes
  by_cases hsame : (decode ib bb a).setIdx = (decode ib bb addr).setIdx ∧
      (decode ib bb a).tag = (decode ib bb addr).tag
  · rw [if_pos hsame, wordAt_set _ _ _ _ hlen]
    by_cases hbo : (decode ib bb addr).blockOff = (decode ib bb a).blockOff
    · rw [if_pos hbo, byteOf_newWord bits _ _ v _ hb hoff' hlt hv (decode_byteOff_lt _ _ _)]
      by_cases hr : (decode ib bb addr).byteOff ≤ (decode ib bb a).byteOff ∧
          (decode ib bb a).byteOff < (decode ib bb addr).byteOff + bits / 8
      · have hc := hiff.mpr ⟨hsame.1, hsame.2, hbo.symm, hr.1, hr.2⟩
        rw [if_pos hr, if_pos hc, inAccess_sub ib bb addr a _ hoff hc]
      · have hc : ¬ (wrap32 addr ≤ wrap32 a ∧ wrap32 a < wrap32 addr + bits / 8) :=
          fun h => hr ⟨(hiff.mp h).2.2.2.1, (hiff.mp h).2.2.2.2⟩
        rw [if_neg hr, if_neg hc, hbo]
        exact hL a hsame.1 hsame.2
    · have hc : ¬ (wrap32 addr ≤ wrap32 a ∧ wrap32 a < wrap32 addr + bits / 8) :=
        fun h => hbo (hiff.mp h).2.2.1.symm
      rw [if_neg hbo, if_neg hc]
      exact hL a hsame.1 hsame.2
  · have hc : ¬ (wrap32 addr ≤ wrap32 a ∧ wrap32 a < wrap32 addr + bits / 8) :=
      fun h => hsame ⟨(hiff.mp h).1, (hiff.mp h).2.1⟩
    rw [if_neg hsame, if_neg hc]

end ArchSim.Lemmas.C03
