/-
C07/C08 helper lemmas, part 1: names for the intermediate results of one `Pipe.step` (state after IF,
after WB, the ID output, the EX output, the MEM output) and `step` rewritten in terms of them.
Core Lean only.
-/
import ArchSim.Model.Pipe
import ArchSim.Lemmas.C02SplitStages

namespace ArchSim.Lemmas.C07
open ArchSim ArchSim.Rv ArchSim.Pipe ArchSim.Lemmas.C02Split

/-- The state with the cycle counter ticked (`self.state.performance_metrics.cycles += 1`). -/
def tick (s : St) : St := { s with cycles := s.cycles + 1 }

/-- State after the IF stage of this cycle (IF is skipped while stalled). -/
def sIF (p : PSt) : St :=
  match p.stalled with
  | none => (ifStage (tick p.st)).1
  | some _ => tick p.st

/-- New IF/ID register of this cycle. -/
def nIF (p : PSt) : Option Latch :=
  match p.stalled with
  | none => (ifStage (tick p.st)).2
  | some _ => p.l0

/-- State after IF and WB. -/
def sWB (p : PSt) : St := (wbStage (sIF p) p.l3).1
/-- Output register of WB. -/
def nWB (p : PSt) : Option Latch := (wbStage (sIF p) p.l3).2
/-- New ID/EX register: ID reads the register file left by this cycle's WB. -/
def nID (p : PSt) : Option Latch := idStage p.hazard (sWB p).regs (idInput p) p.l1 p.l2
/-- Output of the EX stage. -/
def exO (p : PSt) : ExOut := exStage (sWB p) (exInput p) p.l2 p.l3
/-- Output of the MEM stage. -/
def meO (p : PSt) : MemStOut := memStage (exO p).st (memInput p)

/-- `Pipe.step` in terms of the named intermediate results. -/
theorem step_eq (p : PSt) :
    step p =
      match (exO p).fault with
      | some f => { p := { p with st := (exO p).st, l1 := exFaultL1 p }, fault := some f }
      | none =>
        match (meO p).fault with
        | some f => { p := { p with st := (meO p).st }, fault := some f }
        | none => { p := finishStep p (meO p).st (nIF p) (nID p) (exO p).latch (meO p).latch (nWB p),
                    fault := none } := by
  unfold step meO exO nID nWB sWB sIF nIF tick
  cases p.stalled <;> rfl

theorem step_ok (p : PSt) (h1 : (exO p).fault = none) (h2 : (meO p).fault = none) :
    step p = { p := finishStep p (meO p).st (nIF p) (nID p) (exO p).latch (meO p).latch (nWB p),
               fault := none } := by
  rw [step_eq, h1]; simp only [h2]

theorem step_exFault (p : PSt) (f : PFault) (h1 : (exO p).fault = some f) :
    step p = { p := { p with st := (exO p).st, l1 := exFaultL1 p }, fault := some f } := by
  rw [step_eq, h1]

theorem step_memFault (p : PSt) (f : PFault) (h1 : (exO p).fault = none) (h2 : (meO p).fault = some f) :
    step p = { p := { p with st := (meO p).st }, fault := some f } := by
  rw [step_eq, h1]; simp only [h2]

end ArchSim.Lemmas.C07
