/-
C04 (spelling independence), part 31: `pInstrBody` / `parseLine` on branch and `jal` lines with a label target.
-/
import ArchSim.Lemmas.C04SpellLab

namespace ArchSim.Lemmas.C04Spell
open ArchSim ArchSim.PP ArchSim.Rv ArchSim.Asm ArchSim.Lemmas.C14

section
variable (g w1 w2 w3 w4 tr : List Char) (hg : AllWs g) (hgne : g ≠ []) (h1 : AllWs w1) (h2 : AllWs w2)
  (h3 : AllWs w3) (h4 : AllWs w4) (htr : AllWs tr)

include hg hgne h1 h2 h3 h4 htr in
theorem bodyS_BL (op : Op) (h : cls op = .b) (a b : Nat) (ha : a < 32) (hb : b < 32) (s1 s2 : RegStyle)
    (lab : List Char) (hl : IsLabel lab) (o : OffSp) (ho : OffOk o) :
    pInstrBody (mn op ++ tReg g s1 a (tSep w1 ',' (tReg w2 s2 b (tSep w3 ',' (tLab w4 lab (offTxt o ++ tr))))))
      = .ok (.grp (.btypeLabel op.mnemonic a b (String.ofList lab) (offVal o))) tr := by
  have hr := mnSep_tReg g s1 a (tSep w1 ',' (tReg w2 s2 b (tSep w3 ',' (tLab w4 lab (offTxt o ++ tr))))) hg hgne
  have hB : pBType (mn op ++ tReg g s1 a (tSep w1 ',' (tReg w2 s2 b (tSep w3 ',' (tLab w4 lab (offTxt o ++ tr))))))
      = .ok (.btypeLabel op.mnemonic a b (String.ofList lab) (offVal o)) tr := by
    simp only [pBType, stage_exact bMn low_b op (ex2 op h) _ hr, bind_ok,
      pReg_tReg g s1 a _ hg ha (tokEnd_tSep w1 ',' _ h1 comma_nlb), pComma_tSep w1 _ h1,
      pReg_tReg w2 s2 b _ h2 hb (tokEnd_tSep w3 ',' _ h3 comma_nlb), pComma_tSep w3 _ h3,
      pLabel_tLab w4 lab _ h4 hl (tokEnd_offTxt o ho tr htr), pOffset_offTxt o ho tr htr, map_ok]
  have h8 := stage_exact L8 low_8 op (ex8 op (by simp [h])) _ hr
  rw [L8] at h8
  have hI : pRegRegImm (mn op ++ tReg g s1 a (tSep w1 ',' (tReg w2 s2 b (tSep w3 ',' (tLab w4 lab (offTxt o ++ tr))))))
      = .fail := by
    simp only [pRegRegImm, h8, bind_ok,
      pReg_tReg g s1 a _ hg ha (tokEnd_tSep w1 ',' _ h1 comma_nlb), pComma_tSep w1 _ h1,
      pReg_tReg w2 s2 b _ h2 hb (tokEnd_tSep w3 ',' _ h3 comma_nlb), pComma_tSep w3 _ h3,
      pImm_fail_tLab w4 lab _ h4 hl, map_fail]
  rw [pInstrBody_eq]
  simp only [alts, List.map_cons, List.map_nil, hB, hI,
    pRType_failS op _ hr (by rw [h]; decide), pUType_failS op _ hr (by rw [h]; decide),
    pMemory_failS op _ hr (by rw [h]; decide) (by rw [h]; decide) (by rw [h]; decide),
    pMemPseudo_failS op _ hr (by rw [h]; decide) (by rw [h]; decide),
    pSPseudo_failS op _ hr (by rw [h]; decide), pCsr_failS op _ hr (by rw [h]; decide),
    pCsri_failS op _ hr (by rw [h]; decide),
    pFence_failS op _ hr (by rw [h]; decide), pJal_failS op _ hr (by rw [h]; decide) (by rw [h]; decide),
    pEnv_failS op _ hr (by rw [h]; decide) (by rw [h]; decide), pNop_failS op _ hr, pLi_failS op _ hr,
    pMv_failS op _ hr, map_ok, map_fail]
  rfl

include hg hgne h1 h2 htr in
theorem bodyS_JL (a : Nat) (ha : a < 32) (s1 : RegStyle) (lab : List Char) (hl : IsLabel lab) (o : OffSp)
    (ho : OffOk o) :
    pInstrBody (mn .jal ++ tReg g s1 a (tSep w1 ',' (tLab w2 lab (offTxt o ++ tr))))
      = .ok (.grp (.jalLabel a (String.ofList lab) (offVal o))) tr := by
  have hr := mnSep_tReg g s1 a (tSep w1 ',' (tLab w2 lab (offTxt o ++ tr))) hg hgne
  have hk : caselessLit "jal" (mn .jal ++ tReg g s1 a (tSep w1 ',' (tLab w2 lab (offTxt o ++ tr))))
      = .ok () (tReg g s1 a (tSep w1 ',' (tLab w2 lab (offTxt o ++ tr)))) := by
    rw [kwStage "jal" (by decide) .jal _ hr]; rfl
  have hJ : pJal (mn .jal ++ tReg g s1 a (tSep w1 ',' (tLab w2 lab (offTxt o ++ tr))))
      = .ok (.jalLabel a (String.ofList lab) (offVal o)) tr := by
    simp only [pJal, hk, bind_ok, pReg_tReg g s1 a _ hg ha (tokEnd_tSep w1 ',' _ h1 comma_nlb),
      pComma_tSep w1 _ h1]
    rw [orLongest_eq]
    simp only [List.map_cons, List.map_nil, pImm_fail_tLab w2 lab _ h2 hl, map_fail,
      pLabel_tLab w2 lab _ h2 hl (tokEnd_offTxt o ho tr htr), bind_ok, pOffset_offTxt o ho tr htr, map_ok]
    rfl
  rw [pInstrBody_eq]
  simp only [alts, List.map_cons, List.map_nil, hJ,
    pRType_failS .jal _ hr (by decide), pUType_failS .jal _ hr (by decide), pBType_failS .jal _ hr (by decide),
    pMemory_failS .jal _ hr (by decide) (by decide) (by decide),
    pMemPseudo_failS .jal _ hr (by decide) (by decide),
    pSPseudo_failS .jal _ hr (by decide), pCsr_failS .jal _ hr (by decide),
    pCsri_failS .jal _ hr (by decide),
    pRegRegImm_failS .jal _ hr (by decide) (by decide) (by decide) (by decide) (by decide),
    pFence_failS .jal _ hr (by decide),
    pEnv_failS .jal _ hr (by decide) (by decide), pNop_failS .jal _ hr, pLi_failS .jal _ hr,
    pMv_failS .jal _ hr, map_ok, map_fail]
  rfl

end

/-- `b<cond> r, r, label[+0x…]` in any spelling -/
theorem parseLine_branch_label (lead g w1 w2 w3 w4 tr : List Char) (hle : AllWs lead) (hg : AllWs g)
    (hgne : g ≠ []) (h1 : AllWs w1) (h2 : AllWs w2) (h3 : AllWs w3) (h4 : AllWs w4) (htr : AllWs tr)
    (sel : Nat → Bool) (op : Op) (h : cls op = .b) (a b : Nat) (ha : a < 32) (hb : b < 32) (s1 s2 : RegStyle)
    (lab : List Char) (hl : IsLabel lab) (o : OffSp) (ho : OffOk o) :
    parseLine (lead ++ (recase sel (mn op) ++
        tReg g s1 a (tSep w1 ',' (tReg w2 s2 b (tSep w3 ',' (tLab w4 lab (offTxt o ++ tr)))))))
      = some { lbl := none, item := .grp (.btypeLabel op.mnemonic a b (String.ofList lab) (offVal o)) } :=
  parseLine_spelled_word op.mnemonic (mnemonic_mem op) lead hle sel _ (lineSep_tReg g s1 a _ hg hgne ha) _ tr htr
    (bodyS_BL g w1 w2 w3 w4 tr hg hgne h1 h2 h3 h4 htr op h a b ha hb s1 s2 lab hl o ho)

/-- `jal r, label[+0x…]` in any spelling -/
theorem parseLine_jal_label (lead g w1 w2 tr : List Char) (hle : AllWs lead) (hg : AllWs g) (hgne : g ≠ [])
    (h1 : AllWs w1) (h2 : AllWs w2) (htr : AllWs tr) (sel : Nat → Bool) (a : Nat) (ha : a < 32) (s1 : RegStyle)
    (lab : List Char) (hl : IsLabel lab) (o : OffSp) (ho : OffOk o) :
    parseLine (lead ++ (recase sel "jal".toList ++ tReg g s1 a (tSep w1 ',' (tLab w2 lab (offTxt o ++ tr)))))
      = some { lbl := none, item := .grp (.jalLabel a (String.ofList lab) (offVal o)) } :=
  parseLine_spelled_word "jal" (by decide) lead hle sel _ (lineSep_tReg g s1 a _ hg hgne ha) _ tr htr
    (bodyS_JL g w1 w2 tr hg hgne h1 h2 htr a ha s1 lab hl o ho)

end ArchSim.Lemmas.C04Spell
