/-
End-to-end layer, part 2: concrete source texts for the non-vacuity examples of `Props/C07Asm.lean`,
`Props/C08Asm.lean`, `Props/C15Asm.lean`. Each text is the listing of a small canonical program; that it loads and
what it stores follows from the listing fixpoint of C14 (`load_listing`), with the canonicity side condition made
decidable here.
-/
import ArchSim.Lemmas.E2E2Load
import ArchSim.Lemmas.C14Canon
import ArchSim.Lemmas.C08Pad

namespace ArchSim.Lemmas.E2E2.Ex
open ArchSim ArchSim.Rv ArchSim.Asm ArchSim.Lemmas.C14

instance canonDec (addr : Int) (i : Instr) : Decidable (i.Canon addr) := by
  unfold Instr.Canon
  cases i.op.ty <;> infer_instance

instance canonFromDec : (addr : Int) → (prog : List Instr) → Decidable (CanonFrom addr prog)
  | _, [] => isTrue trivial
  | addr, i :: is =>
    have := canonFromDec (addr + 4) is
    by unfold CanonFrom; infer_instance

theorem canonFrom_mem {addr : Int} {prog : List Instr} (h : CanonFrom addr prog) :
    ∀ i ∈ prog, ∃ a, i.Canon a := by
  induction prog generalizing addr with
  | nil => intro i hi; cases hi
  | cons j js ih =>
    intro i hi
    rcases List.mem_cons.1 hi with rfl | hi
    · exact ⟨addr, h.1⟩
    · exact ih h.2.2 i hi

/-- the listing text of a program: its printed instructions joined by newlines -/
def listingText (prog : List Instr) : String := String.intercalate "\n" (prog.map Instr.repr)

/-- The listing of a canonical `fence`-free program loads, into any state, and stores that program. -/
theorem listing_loads (s : St) (prog : List Instr) (hlen : prog.length ≤ 4096) (hc : CanonFrom 0 prog) :
    (load s (listingText prog)).err = none ∧ (load s (listingText prog)).st.imem.prog = prog :=
  load_listing s prog hlen hc (fun i hi => by
    obtain ⟨a, ha⟩ := canonFrom_mem hc i hi
    exact lineOk_repr i a ha)

/-- … and the whole state after the load: `s` with both memories reset and the program stored. -/
theorem listing_loads_st (s : St) (prog : List Instr) (hlen : prog.length ≤ 4096) (hc : CanonFrom 0 prog) :
    (load s (listingText prog)).st =
      { s with mem := s.mem.reset, imem := { prog := prog, cache := s.imem.cache.map ICache.reset } } := by
  have hl : (sanitize (listingText prog)).map (·.2) = prog.map (fun i => i.repr.toList) := by
    unfold listingText
    rw [sanitize_join, List.map_map]
    · rfl
    · intro t ht
      obtain ⟨i, hi, rfl⟩ := List.mem_map.mp ht
      obtain ⟨a, ha⟩ := canonFrom_mem hc i hi
      exact lineOk_repr i a ha
  obtain ⟨es, hes, hg⟩ := tokenize_good (sanitize (listingText prog)) prog 0 hl hc
  have h1 := segment_good hg
  have h2 := pending_good hg
  have h3 := expandAll_good [] hg
  have h4 := processLabels_good hg [] 0
  have h5 := buildInstrs_good hg []
  simp only [tentriesOf] at h3 h4 h5
  have hnot : ¬ prog.length > 4096 := by omega
  unfold load
  simp only [hes, h1, h2, writeData, h3, h4, h5, hnot, if_false]

/-! ### a plain, independent straight-line text -/

/-- `addi x1,x0,5 ; slli x2,x0,3 ; lui x3,1` -/
def lineProg : List Instr :=
  [{ op := .addi, rd := 1, rs1 := 0, imm := 5 }, { op := .slli, rd := 2, rs1 := 0, imm := 3 },
   { op := .lui, rd := 3, imm := 1 }]

def lineText : String := listingText lineProg

theorem lineText_eq : lineText = "addi x1, x0, 5\nslli x2, x0, 3\nlui x3, 1" := by decide +kernel

theorem load_lineText (s : St) : (load s lineText).err = none ∧ (load s lineText).st.imem.prog = lineProg :=
  listing_loads s lineProg (by decide) (by decide)

/-- the power-on state with the program `prog` stored -/
def progSt (prog : List Instr) : St := { freshSt with imem := { prog := prog, cache := none } }

/-- Loading a listing into the power-on state gives `progSt`. -/
theorem load_listing_fresh (prog : List Instr) (hlen : prog.length ≤ 4096) (hc : CanonFrom 0 prog) :
    (load freshSt (listingText prog)).st = progSt prog := by
  rw [listing_loads_st freshSt prog hlen hc]; rfl

theorem load_lineText_st : (load freshSt lineText).st = progSt lineProg :=
  load_listing_fresh lineProg (by decide) (by decide)

/-! ### a text with a load, and a state with both caches -/

/-- `lui x5, 4 ; lw x1, 0(x5) ; addi x2, x0, 1` (the load reads address 0x4000) -/
def memProg : List Instr :=
  [{ op := .lui, rd := 5, imm := 4 }, { op := .lw, rd := 1, rs1 := 5, imm := 0 },
   { op := .addi, rd := 2, rs1 := 0, imm := 1 }]

def memText : String := listingText memProg

theorem memText_eq : memText = "lui x5, 4\nlw x1, 0(x5)\naddi x2, x0, 1" := by decide +kernel

theorem load_memText (s : St) : (load s memText).err = none ∧ (load s memText).st.imem.prog = memProg :=
  listing_loads s memProg (by decide) (by decide)

def exGeo : Cache.Geo := { idxBits := 1, blkBits := 1, assoc := 1 }

/-- the power-on state with an instruction cache (LRU, 2 sets × 2 words, 1 way, penalty 10) and a write-back data
    cache (LRU, same geometry, penalty 7) -/
def cacheSt : St :=
  { freshSt with
    imem := { prog := [], cache := some (ICache.init true exGeo 10) }
    mem := .cached true (Cache.DSys.init (Cache.polOps true) false exGeo 7 (Mem.Mem.empty Mem.riscvCfg)) }

/-- `cacheSt` after loading `memText` -/
def cacheMemSt : St := { cacheSt with imem := { prog := memProg, cache := some (ICache.init true exGeo 10) } }

theorem load_memText_cache : (load cacheSt memText).st = cacheMemSt := by
  rw [memText, listing_loads_st cacheSt memProg (by decide) (by decide)]; rfl

theorem cacheSt_icacheOK : ICacheOK cacheSt := by
  intro c hc
  cases hc
  exact ⟨by decide, fun h => by cases h⟩

/-! ### a text whose run faults -/

/-- `addi x2, x0, 1 ; lw x1, 0(x0)`: the load reads address 0, below the data range -/
def faultProg : List Instr :=
  [{ op := .addi, rd := 2, rs1 := 0, imm := 1 }, { op := .lw, rd := 1, rs1 := 0, imm := 0 }]

def faultText : String := listingText faultProg

theorem faultText_eq : faultText = "addi x2, x0, 1\nlw x1, 0(x0)" := by decide +kernel

theorem load_faultText_st : (load freshSt faultText).st = progSt faultProg :=
  load_listing_fresh faultProg (by decide) (by decide)

end ArchSim.Lemmas.E2E2.Ex
