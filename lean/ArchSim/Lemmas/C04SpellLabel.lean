/-
C04 (spelling independence), part 28: lines with an in-line label declaration `lab:` in front of the
instruction. What `parseLine` returns is determined by what `pInstrBody` makes of the rest of the line.
-/
import ArchSim.Lemmas.C04SpellEx

set_option linter.unusedSectionVars false

namespace ArchSim.Lemmas.C04Spell
open ArchSim ArchSim.PP ArchSim.Rv ArchSim.Asm ArchSim.Lemmas.C14

/-- a label: a letter or `_`, then letters, digits, `_` -/
def IsLabel (lab : List Char) : Prop :=
  ∃ c cs, lab = c :: cs ∧ isLabelInit c = true ∧ ∀ d ∈ cs, isLabelBody d = true

theorem labelInit_body (c : Char) (h : isLabelInit c = true) : isLabelBody c = true := by
  simp only [isLabelInit, Bool.or_eq_true, decide_eq_true_eq] at h
  simp only [isLabelBody, isAlnum, Bool.or_eq_true, decide_eq_true_eq]
  rcases h with h | h
  · exact Or.inl (Or.inl h)
  · exact Or.inr h

theorem labelInit_table : ∀ n < 128, isLabelInit (Char.ofNat n) = true →
    isWs (Char.ofNat n) = false ∧ Char.ofNat n ≠ '.' := by decide

theorem labelInit_facts (c : Char) (h : isLabelInit c = true) : isWs c = false ∧ c ≠ '.' :=
  ascii_cases (fun c => isLabelInit c = true → isWs c = false ∧ c ≠ '.') c
    (labelBody_ascii c (labelInit_body c h)) labelInit_table h

/-- the text in front of the instruction: blanks, label, blanks, colon, blanks -/
def labelPrefix (ws1 lab ws2 ws3 : List Char) (x : List Char) : List Char :=
  ws1 ++ (lab ++ (ws2 ++ ':' :: (ws3 ++ x)))

section
variable (ws1 lab ws2 ws3 : List Char) (h1 : AllWs ws1) (hl : IsLabel lab) (h2 : AllWs ws2) (h3 : AllWs ws3)
include h1 hl h2 h3

theorem pLabel_prefix (x : List Char) :
    pLabel (labelPrefix ws1 lab ws2 ws3 x) = .ok (String.ofList lab) (ws2 ++ ':' :: (ws3 ++ x)) := by
  obtain ⟨c, cs, rfl, hc, hcs⟩ := hl
  have hend : ∀ d ∈ (ws2 ++ ':' :: (ws3 ++ x)).head?, isLabelBody d = false :=
    tokEnd_ws_append ws2 _ h2 (tokEnd_cons ':' _ (by decide))
  rw [labelPrefix, pLabel_ws ws1 _ h1]
  simp only [pLabel, word, List.cons_append, skipWs_cons_of_not_ws c _ (labelInit_facts c hc).1, wordAdj, hc,
    if_true, takeWhile_class isLabelBody cs _ hcs hend, dropWhile_class isLabelBody cs _ hcs hend]

theorem pColon_prefix (x : List Char) : pColon (ws2 ++ ':' :: (ws3 ++ x)) = .ok () (ws3 ++ x) := by
  exact lit_tSep ":" ':' rfl (by decide) ws2 _ h2

theorem pLabelDecl_prefix (x : List Char) :
    pLabelDecl (labelPrefix ws1 lab ws2 ws3 x) = .ok (String.ofList lab) (ws3 ++ x) := by
  simp only [pLabelDecl, pLabel_prefix ws1 lab ws2 ws3 h1 hl h2 h3 x, bind_ok,
    pColon_prefix ws1 lab ws2 ws3 h1 hl h2 h3 x, map_ok]

theorem pDirective_prefix (x : List Char) : pDirective (labelPrefix ws1 lab ws2 ws3 x) = .fail := by
  obtain ⟨c, cs, rfl, hc, hcs⟩ := hl
  have hf := labelInit_facts c hc
  rw [labelPrefix]
  simp [pDirective, lit, skipWs_append ws1 _ h1, skipWs_cons_of_not_ws c _ hf.1, stripPrefix, Ne.symm hf.2]

/-- a `.` does not follow the colon when the instruction starts with a letter -/
theorem lit_dot_fail (x : List Char) (hx : ∀ c ∈ x.head?, c ∈ letterList) (hne : x ≠ []) :
    lit "." (ws3 ++ x) = .fail := by
  cases x with
  | nil => exact absurd rfl hne
  | cons c r =>
    have hc := letter_facts c (hx c (by simp))
    simp [lit, skipWs_append ws3 _ h3, skipWs_cons_of_not_ws c _ hc.2.1, stripPrefix, Ne.symm hc.2.2.2.2.2.1]

end

/-- the token of `lab: x` in terms of what the instruction grammar makes of `x` (`n` = length of the text
    after the colon): the instruction must be read at least as far as the bare label declaration reads -/
def labelledResult (lab : List Char) (n : Nat) (b : R Item) : Option Tok :=
  match b with
  | .ok it r =>
    if n < r.length then none
    else if atEnd r then some { lbl := some (String.ofList lab), item := it } else none
  | _ => none

theorem atEnd_letter (ws3 x : List Char) (h3 : AllWs ws3) (hx : ∀ c ∈ x.head?, c ∈ letterList) (hne : x ≠ []) :
    atEnd (ws3 ++ x) = false := by
  cases x with
  | nil => exact absurd rfl hne
  | cons c r =>
    have hc := letter_facts c (hx c (by simp))
    simp [atEnd, skipWs_append ws3 _ h3, skipWs_cons_of_not_ws c _ hc.2.1]

/-- A line `lab: x` whose instruction part `x` starts with a letter. -/
theorem parseLine_labelled (ws1 lab ws2 ws3 : List Char) (h1 : AllWs ws1) (hl : IsLabel lab) (h2 : AllWs ws2)
    (h3 : AllWs ws3) (x : List Char) (hx : ∀ c ∈ x.head?, c ∈ letterList) (hne : x ≠ []) :
    parseLine (labelPrefix ws1 lab ws2 ws3 x) = labelledResult lab (ws3 ++ x).length (pInstrBody x) := by
  have hlab := pLabel_prefix ws1 lab ws2 ws3 h1 hl h2 h3 x
  have hcol := pColon_prefix ws1 lab ws2 ws3 h1 hl h2 h3 x
  have hdot := lit_dot_fail ws1 lab ws2 ws3 h1 hl h2 h3 x hx hne
  have a1 := pDirective_prefix ws1 lab ws2 ws3 h1 hl h2 h3 x
  have a2 : pVarDecl (labelPrefix ws1 lab ws2 ws3 x) = .fail := by
    simp only [pVarDecl, hlab, bind_ok, hcol, hdot, bind_fail]
  have a3 : pStrDecl (labelPrefix ws1 lab ws2 ws3 x) = .fail := by
    simp only [pStrDecl, hlab, bind_ok, hcol, hdot, bind_fail]
  have a4 : pZeroDecl (labelPrefix ws1 lab ws2 ws3 x) = .fail := by
    simp only [pZeroDecl, hlab, bind_ok, hcol, hdot, bind_fail]
  have a6 := pLabelDecl_prefix ws1 lab ws2 ws3 h1 hl h2 h3 x
  have a5 : pInstruction (labelPrefix ws1 lab ws2 ws3 x)
      = (pInstrBody x).map fun it => { lbl := some (String.ofList lab), item := it } := by
    simp only [pInstruction, opt, a6, bind_ok, pInstrBody_ws ws3 x h3]
  have hend := atEnd_letter ws3 x h3 hx hne
  unfold parseLine
  rw [orLongest_eq]
  simp only [List.map_cons, List.map_nil, a1, a2, a3, a4, a5, a6, map_ok]
  cases pInstrBody x with
  | fail =>
    simp only [map_fail, labelledResult]
    have : ([R.fail, R.fail, R.fail, R.fail, R.fail,
        R.ok ({ lbl := none, item := Item.str (String.ofList lab) } : Tok) (ws3 ++ x)] : List (R Tok)).any
        isAbort = false := rfl
    simp only [this]
    simp only [Bool.false_eq_true, if_false, List.foldl_cons, List.foldl_nil, orStep, hend]
  | abort =>
    simp only [map_abort, labelledResult]
    have : ([R.fail, R.fail, R.fail, R.fail, R.abort,
        R.ok ({ lbl := none, item := Item.str (String.ofList lab) } : Tok) (ws3 ++ x)] : List (R Tok)).any
        isAbort = true := rfl
    simp only [this]
    simp only [if_true]
  | ok it r =>
    simp only [map_ok, labelledResult]
    have : ([R.fail, R.fail, R.fail, R.fail,
        R.ok ({ lbl := some (String.ofList lab), item := it } : Tok) r,
        R.ok ({ lbl := none, item := Item.str (String.ofList lab) } : Tok) (ws3 ++ x)] : List (R Tok)).any
        isAbort = false := rfl
    simp only [this]
    simp only [Bool.false_eq_true, if_false, List.foldl_cons, List.foldl_nil, orStep]
    by_cases hlt : (ws3 ++ x).length < r.length
    · simp only [hlt, if_true, hend, Bool.false_eq_true, if_false]
    · simp only [hlt, if_false]

theorem caseVar_head {w' w : List Char} (hv : CaseVar w' w) (rest : List Char) :
    ∀ c ∈ (w' ++ rest).head?, w' ≠ [] → c ∈ letterList := by
  intro c hc hne
  cases w' with
  | nil => exact absurd rfl hne
  | cons a r =>
    simp only [List.cons_append, List.head?_cons, Option.mem_def, Option.some.injEq] at hc
    subst hc
    exact hv.letters a (by simp)

/-- Mnemonics are case-insensitive also behind an in-line label. -/
theorem parseLine_labelled_cv (ws1 lab ws2 ws3 : List Char) (h1 : AllWs ws1) (hl : IsLabel lab) (h2 : AllWs ws2)
    (h3 : AllWs ws3) (m : String) (hm : m ∈ mnWords) (w' rest : List Char) (hv : CaseVar w' m.toList)
    (hr : MnSep rest) (ht : TokEnd rest) :
    parseLine (labelPrefix ws1 lab ws2 ws3 (w' ++ rest))
      = parseLine (labelPrefix ws1 lab ws2 ws3 (m.toList ++ rest)) := by
  have hne := (mnWords_low m hm).2
  have hne' : w' ≠ [] := by
    intro h; apply hne; apply List.length_eq_zero_iff.mp; rw [← hv.length, h]; rfl
  have hv0 : CaseVar m.toList m.toList := CaseVar.refl hv.2
  rw [parseLine_labelled ws1 lab ws2 ws3 h1 hl h2 h3 (w' ++ rest)
      (fun c hc => caseVar_head hv rest c hc hne') (by simp [hne']),
    parseLine_labelled ws1 lab ws2 ws3 h1 hl h2 h3 (m.toList ++ rest)
      (fun c hc => caseVar_head hv0 rest c hc hne) (by simp [hne]),
    pInstrBody_cv m hm w' rest hv hr ht]
  simp only [List.length_append, hv.length]

/-- Whole-line spelling independence behind an in-line label: `lab:` (with any blanks around the label and the
    colon) followed by ANY spelling of the instruction `i` is tokenized as the entry `itemOf i` with that label. -/
theorem parseLine_labelled_render (ws1 lab ws2 ws3 : List Char) (h1 : AllWs ws1) (hl : IsLabel lab)
    (h2 : AllWs ws2) (h3 : AllWs ws3) (sp : Spelling) (i : Instr) (hs : Spellable i) :
    parseLine (labelPrefix ws1 lab ws2 ws3 (render { sp with lead := [] } i))
      = some { lbl := some (String.ofList lab), item := itemOf i } := by
  obtain ⟨hb, hsep⟩ := body_render sp i hs
  have hcv := caseVar_recase sp.mnCase (mn i.op) (mn_low i.op).1
  have hne : recase sp.mnCase (mn i.op) ≠ [] := recase_ne_nil _ _ (mn_low i.op).2
  have hx : render { sp with lead := [] } i = recase sp.mnCase (mn i.op) ++ operands sp i (blanks sp.trail) := by
    simp [render, blanks, operands, gapOf]
  have hbody : pInstrBody (recase sp.mnCase (mn i.op) ++ operands sp i (blanks sp.trail))
      = .ok (itemOf i) (blanks sp.trail) := by
    have := pInstrBody_cv i.op.mnemonic (mnemonic_mem _) _ _ hcv hsep.mnSep hsep.tokEnd
    rw [this]; exact hb
  have hend : atEnd (blanks sp.trail) = true := by simp [atEnd, skipWs_allWs _ (allWs_blanks sp.trail)]
  rw [hx, parseLine_labelled ws1 lab ws2 ws3 h1 hl h2 h3 _ (fun c hc => caseVar_head hcv _ c hc hne)
    (by simp [hne]), hbody]
  have hlen : ¬ (ws3 ++ (recase sp.mnCase (mn i.op) ++ operands sp i (blanks sp.trail))).length
      < (blanks sp.trail).length := by
    rw [operands_append]
    simp only [List.length_append]; omega
  simp only [labelledResult, hlen, if_false, hend, if_true]

end ArchSim.Lemmas.C04Spell
