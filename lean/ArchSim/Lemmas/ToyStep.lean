/-
Definitions and lemmas for the TOY stepping API (C20, C13): the due half-cycle `half`, the
sequencing invariant `Inv`, the accepted/rejected classification of calls and the normal form
of call sequences.
-/
import ArchSim.Model.Toy
import ArchSim.Spec.Iter

namespace ArchSim.Toy
open ArchSim

/-! ### Definitions used in the property statements -/

/-- Sequencing invariant of a `ToySimulation`: `next_cycle` is 1 or 2, and a finished simulation
    is at an instruction boundary. -/
def Inv (t : TSim) : Prop :=
  (t.nextCycle = 1 ∨ t.nextCycle = 2) ∧ (isDone t = true → t.nextCycle = 1)

instance (t : TSim) : Decidable (Inv t) := by unfold Inv; infer_instance

/-- The half-cycle that is due: first half at `next_cycle = 1`, second half otherwise; the
    identity once the program is done. -/
def half (t : TSim) : TSim :=
  match t.s.loaded with
  | none => t
  | some i => if t.nextCycle = 1 then firstBody t i else secondBody t i

/-- The calls that raise `StepSequenceError`: a first half in the middle of an instruction, a
    second half at an instruction boundary, a whole step in the middle of an instruction — each
    only while the program is not done. `single_step` is never rejected. -/
def rejected (t : TSim) : Call → Bool
  | .first  => !isDone t && t.nextCycle == 2
  | .second => !isDone t && t.nextCycle == 1
  | .step   => !isDone t && t.nextCycle == 2
  | .single => false

/-- Number of half-cycles a call performs: none when done or rejected, two for `step`, else one. -/
def weight (t : TSim) (c : Call) : Nat :=
  if isDone t || rejected t c then 0 else match c with | .step => 2 | _ => 1

/-- State after a sequence of API calls (errors are caught and the next call is made). -/
def calls (t : TSim) : List Call → TSim
  | [] => t
  | c :: cs => calls (call t c).t cs

/-- Which calls of a sequence raised the sequencing error. -/
def errs (t : TSim) : List Call → List Bool
  | [] => []
  | c :: cs => (call t c).err :: errs (call t c).t cs

/-- The calls of a sequence that *should* be rejected, by the classification `rejected`. -/
def rejects (t : TSim) : List Call → List Bool
  | [] => []
  | c :: cs => rejected t c :: rejects (call t c).t cs

/-- Total number of half-cycles performed by the accepted calls of a sequence. -/
def halfCount (t : TSim) : List Call → Nat
  | [] => 0
  | c :: cs => weight t c + halfCount (call t c).t cs

/-- State component of `step()`. -/
def stepT (t : TSim) : TSim := (stepCall t).t

/-- Demo program for the non-vacuity examples: `LDA 5; INC; STO 5` with `mem[5] = 7`, loaded
    into a new simulation. -/
def demoInc : TSim := loadImage {} [⟨1, 5⟩, ⟨9, 0⟩, ⟨0, 5⟩] [(5, 7)]

/-! ### Basic facts -/

theorem behavior_loaded (i : TInstr) (s : TSt) : (behavior i s).loaded = s.loaded := by
  unfold behavior
  split <;> try rfl
  simp only; split <;> rfl

theorem firstBody_loaded (t : TSim) (i : TInstr) : (firstBody t i).s.loaded = t.s.loaded := by
  simp [firstBody, behavior_loaded]

@[simp] theorem firstBody_next (t : TSim) (i : TInstr) : (firstBody t i).nextCycle = 2 := rfl
@[simp] theorem secondBody_next (t : TSim) (i : TInstr) : (secondBody t i).nextCycle = 1 := rfl

theorem isDone_none {t : TSim} (h : t.s.loaded = none) : isDone t = true := by simp [isDone, h]
theorem isDone_some {t : TSim} {i : TInstr} (h : t.s.loaded = some i) : isDone t = false := by
  simp [isDone, h]

theorem half_done {t : TSim} (h : isDone t = true) : half t = t := by
  unfold half; unfold isDone at h
  cases hl : t.s.loaded with
  | none => rfl
  | some i => simp [hl] at h

theorem iter_half_done {t : TSim} (h : isDone t = true) (n : Nat) : iter half n t = t := by
  induction n with
  | zero => rfl
  | succ n ih => simp [iter, half_done h, ih]

theorem Inv_half {t : TSim} (h : Inv t) : Inv (half t) := by
  unfold half
  cases hl : t.s.loaded with
  | none => exact h
  | some i =>
    simp only
    split
    · refine ⟨Or.inr rfl, ?_⟩
      intro hd
      have := firstBody_loaded t i
      rw [hl] at this
      rw [isDone_some this] at hd; cases hd
    · exact ⟨Or.inl rfl, fun _ => rfl⟩

theorem Inv_iter_half {t : TSim} (h : Inv t) (n : Nat) : Inv (iter half n t) := by
  induction n generalizing t with
  | zero => exact h
  | succ n ih => exact ih (Inv_half h)

/-- `firstCycle` when it is due. -/
theorem firstCycle_due {t : TSim} (h1 : t.nextCycle = 1) : firstCycle t = ⟨half t, false⟩ := by
  unfold firstCycle half
  cases t.s.loaded with
  | none => rfl
  | some i => simp [h1]

/-- `secondCycle` when it is due. -/
theorem secondCycle_due {t : TSim} (h2 : t.nextCycle = 2) : secondCycle t = ⟨half t, false⟩ := by
  unfold secondCycle half
  cases t.s.loaded with
  | none => rfl
  | some i => simp [h2]

theorem half_next_of_one {t : TSim} (hd : isDone t = false) (h1 : t.nextCycle = 1) :
    (half t).nextCycle = 2 ∧ isDone (half t) = false := by
  unfold half
  cases hl : t.s.loaded with
  | none => rw [isDone_none hl] at hd; cases hd
  | some i =>
    simp only [h1, if_true, firstBody_next, true_and]
    have := firstBody_loaded t i
    rw [hl] at this
    exact isDone_some this

theorem half_next_of_two {t : TSim} (hd : isDone t = false) (h2 : t.nextCycle = 2) :
    (half t).nextCycle = 1 := by
  unfold half
  cases hl : t.s.loaded with
  | none => rw [isDone_none hl] at hd; cases hd
  | some i => simp [h2]

/-- The classification of every call, in one statement. -/
theorem call_spec {t : TSim} (h : Inv t) (c : Call) :
    call t c = ⟨iter half (weight t c) t, rejected t c⟩ := by
  obtain ⟨h12, hdone⟩ := h
  cases hd : isDone t with
  | true =>
    have h1 := hdone hd
    have hl : t.s.loaded = none := by simpa [isDone] using hd
    cases c <;>
      simp [call, firstCycle, secondCycle, stepCall, singleCall, hl, h1, weight, rejected, hd]
  | false =>
    rcases h12 with h1 | h2
    · have ⟨hn, hd'⟩ := half_next_of_one hd h1
      cases c
      · simp [call, firstCycle_due h1, weight, rejected, hd, h1, iter]
      · have ⟨i, hl⟩ : ∃ i, t.s.loaded = some i := by
          cases hl : t.s.loaded with
          | none => rw [isDone_none hl] at hd; cases hd
          | some i => exact ⟨i, rfl⟩
        simp [call, secondCycle, hl, weight, rejected, hd, h1]
      · simp [call, stepCall, firstCycle_due h1, secondCycle_due hn, weight, rejected, hd, h1, iter]
      · simp [call, singleCall, firstCycle_due h1, weight, rejected, hd, h1, iter]
    · have ⟨i, hl⟩ : ∃ i, t.s.loaded = some i := by
        cases hl : t.s.loaded with
        | none => rw [isDone_none hl] at hd; cases hd
        | some i => exact ⟨i, rfl⟩
      cases c
      · simp [call, firstCycle, hl, weight, rejected, hd, h2]
      · simp [call, secondCycle_due h2, weight, rejected, hd, h2, iter]
      · simp [call, stepCall, weight, rejected, hd, h2]
      · simp [call, singleCall, secondCycle_due h2, weight, rejected, hd, h2, iter]

theorem Inv_call {t : TSim} (h : Inv t) (c : Call) : Inv (call t c).t := by
  rw [call_spec h c]; exact Inv_iter_half h _

theorem calls_spec {t : TSim} (h : Inv t) (cs : List Call) :
    calls t cs = iter half (halfCount t cs) t ∧ errs t cs = rejects t cs ∧ Inv (calls t cs) := by
  induction cs generalizing t with
  | nil => exact ⟨rfl, rfl, h⟩
  | cons c cs ih =>
    have ⟨a, b, d⟩ := ih (Inv_call h c)
    refine ⟨?_, ?_, d⟩
    · simp only [calls, halfCount, a, iter_add]
      congr 1
      rw [call_spec h c]
    · simp only [errs, rejects, b]
      rw [call_spec h c]

theorem calls_append (t : TSim) (as bs : List Call) : calls t (as ++ bs) = calls (calls t as) bs := by
  induction as generalizing t with
  | nil => rfl
  | cons a as ih => simp [calls, ih]

/-- Two due half-cycles from a boundary end at a boundary. -/
theorem half_half_next {t : TSim} (h1 : t.nextCycle = 1) :
    (half (half t)).nextCycle = 1 := by
  cases hd : isDone t with
  | true => simp [half_done hd, h1]
  | false =>
    have ⟨hn, hd'⟩ := half_next_of_one hd h1
    exact half_next_of_two hd' hn

theorem Inv_of_one {t : TSim} (h1 : t.nextCycle = 1) : Inv t := ⟨Or.inl h1, fun _ => h1⟩

theorem stepCall_boundary {t : TSim} (h1 : t.nextCycle = 1) :
    stepCall t = ⟨half (half t), false⟩ := by
  have h := Inv_of_one h1
  have := call_spec h .step
  simp only [call] at this
  rw [this]
  cases hd : isDone t with
  | true => simp [weight, rejected, hd, half_done hd]
  | false => simp [weight, rejected, hd, h1, iter]

theorem first_second_boundary {t : TSim} (h1 : t.nextCycle = 1) :
    calls t [.first, .second] = half (half t) := by
  simp only [calls, call]
  rw [firstCycle_due h1]
  cases hd : isDone t with
  | true =>
    have hl : t.s.loaded = none := by simpa [isDone] using hd
    simp [half_done hd, secondCycle, hl]
  | false =>
    have ⟨hn, _⟩ := half_next_of_one hd h1
    rw [secondCycle_due hn]

theorem single_single_boundary {t : TSim} (h1 : t.nextCycle = 1) :
    calls t [.single, .single] = half (half t) := by
  simp only [calls, call, singleCall, h1, if_true]
  rw [firstCycle_due h1]
  cases hd : isDone t with
  | true =>
    have hl : t.s.loaded = none := by simpa [isDone] using hd
    simp [half_done hd, h1, firstCycle, hl]
  | false =>
    have ⟨hn, _⟩ := half_next_of_one hd h1
    simp only [hn]
    rw [secondCycle_due hn]; simp

theorem Inv_init : Inv {} := by decide

theorem loadImage_next (t : TSim) (is : List TInstr) (d : List (Nat × Nat)) :
    (loadImage t is d).nextCycle = t.nextCycle ∧ (loadImage t is d).started = t.started := by
  unfold loadImage; exact ⟨rfl, rfl⟩

theorem Inv_loadImage {t : TSim} (h1 : t.nextCycle = 1) (is : List TInstr) (d : List (Nat × Nat)) :
    Inv (loadImage t is d) := by
  have := (loadImage_next t is d).1
  exact ⟨Or.inl (by rw [this, h1]), fun _ => by rw [this, h1]⟩

end ArchSim.Toy
