/-
C12 (memory table, program level), part 5: WRITE-BACK.  Every operation of the write-back system
(read or write, accepted or rejected) is an `Evo` step; an accepted write leaves its block resident.
-/
import ArchSim.Lemmas.C12ProgEvo

namespace ArchSim.Lemmas.C12Prog
open ArchSim ArchSim.Cache ArchSim.Mem ArchSim.Spec.ByteStore ArchSim.Lemmas.C18 ArchSim.Spec.CacheAbs
open ArchSim.Lemmas.C03 ArchSim.Lemmas.C12

variable {σ : Type} {P : PolicyOps σ} {WFp : σ → Prop}

/-- `_read_block` of the write-back system, at any address. -/
theorem readBlockSys_evo {s : DSys σ} (hP : PolicyOK P s.geo.assoc WFp) (hs : CInv WFp s)
    (hwt : s.wt = false) (addr : Int) : Evo s (s.readBlockSys P (dec s addr)).1 := by
  have hk : (dec s addr).setIdx < 2 ^ s.geo.idxBits := decode_setIdx_lt _ _ _
  obtain ⟨sets1, hrb, hsets1, hl1⟩ := readBlock_spec hP hs.sets (dec s addr) hk
  obtain ⟨hs1, _⟩ := CInv_transfer hs { s with sets := sets1 } rfl rfl rfl hsets1 hl1
  have e1 : Evo s { s with sets := sets1 } := Evo.of_lookup_eq _ _ rfl rfl hl1
  unfold DSys.readBlockSys
  by_cases hin : inData addr
  · cases hlk : lookup s.sets (dec s addr).setIdx (dec s addr).tag with
    | some w =>
      rw [hlk] at hrb
      simp only [hrb, Option.map_some]
      exact e1
    | none =>
      rw [hlk] at hrb
      obtain ⟨ws, hf, hlen, hlt, _⟩ := fetch_spec hs addr hin hlk
      simp only [hrb, Option.map_none, hf]
      cases hwbk : writeBlock P sets1 (dec s addr) ws with
      | error e => exact e1
      | ok r =>
        obtain ⟨sets2, hit, displaced⟩ := r
        obtain ⟨m', hdn, hds, hall⟩ := putBlock_evo (s := { s with sets := sets1 }) hP hs1 addr hin ws
          hlen hlt sets2 hit displaced hwbk
        simp only [hwt, Bool.false_eq_true, if_false]
        cases displaced with
        | none =>
          exact e1.trans (hall { s with sets := sets2 } rfl rfl (hdn rfl).symm).1
        | some bw =>
          obtain ⟨b, ws'⟩ := bw
          have hwbm : writeBlockToMem s.mem b ws' 0 = (m', none) := hds b ws' rfl
          simp only [hwbm]
          exact e1.trans (hall { s with sets := sets2, mem := m' } rfl rfl rfl).1
  · rw [not_resident_of_bad hs.toCInvS addr hin] at hrb
    obtain ⟨n, hn⟩ := words_succ s.geo
    have hbase : (dec s addr).blockBase < 16384 := by
      have h4 : wrap32 addr = (dec s addr).blockBase + 4 * (dec s addr).blockOff + (dec s addr).byteOff :=
        decode_full_eq _ _ _
      unfold inData at hin
      omega
    have hf := readBlockFromMem_bad (CInvS_memOK hs.toCInvS) (dec s addr).blockBase n hbase
    rw [← hn] at hf
    simp only [hrb, Option.map_none, hf]
    exact e1

/-- A read of the write-back system (any width, any address, counted or not). -/
theorem read_evo {s : DSys σ} (hP : PolicyOK P s.geo.assoc WFp) (hs : CInv WFp s)
    (hwt : s.wt = false) (bits : Nat) (addr : Int) (counted : Bool) :
    Evo s (s.read P bits addr counted).sys := by
  have h : Evo s (s.readBlockSys P (decode s.geo.idxBits s.geo.blkBits addr)).1 :=
    readBlockSys_evo hP hs hwt addr
  unfold DSys.read
  simp only
  rcases hr : s.readBlockSys P (decode s.geo.idxBits s.geo.blkBits addr) with ⟨s1, r⟩
  rw [hr] at h
  cases r with
  | error e => exact h
  | ok p =>
    obtain ⟨vals, hit⟩ := p
    cases counted
    · exact h
    · exact h.trans (Evo.of_lookup_eq _ _ rfl rfl (fun _ _ => rfl))

/-- The tail of a write-back write once the block content is known (hit: the resident block; miss:
    the fetched block). -/
theorem wbFinish_evo {s : DSys σ} (hP : PolicyOK P s.geo.assoc WFp) (hs : CInv WFp s)
    (sets1 : List (CSet σ Nat)) (hsets1 : SetsOK s.geo WFp sets1)
    (hl1 : ∀ k t, lookup sets1 k t = lookup s.sets k t) (bits : Nat) (addr : Int) (v : Nat)
    (hit : Bool) (hb : widthOK bits) (hin : inData addr) (hv : v < 2 ^ bits)
    (block : List Nat) (hlen : block.length = 2 ^ s.geo.blkBits)
    (hlt : ∀ x, x ∈ block → x < 4294967296) :
    Evo s (wbFinish P s sets1 (dec s addr) hit bits v block).sys ∧
      (inWord bits addr → resident (wbFinish P s sets1 (dec s addr) hit bits v block).sys addr = true) := by
  obtain ⟨hs1, _⟩ := CInv_transfer hs { s with sets := sets1 } rfl rfl rfl hsets1 hl1
  have e1 : Evo s { s with sets := sets1 } := Evo.of_lookup_eq _ _ rfl rfl hl1
  unfold wbFinish
  by_cases hw : inWord bits addr
  · have hoff : (dec s addr).byteOff + bits / 8 ≤ 4 := hw
    have hwlt := wordAt_lt block (dec s addr).blockOff hlt
    rw [intoBlock_ok bits (dec s addr) block v hb hoff]
    simp only
    cases hwbk : writeBlock P sets1 (dec s addr) (block.set (dec s addr).blockOff
        (newWord bits (dec s addr).byteOff (wordAt block (dec s addr).blockOff) v)) with
    | error e =>
      -- impossible: `Cache.write_block` never fails on a well-formed cache (`putBlock_spec`)
      exfalso
      obtain ⟨_, _, _, h, _⟩ := putBlock_spec (s := { s with sets := sets1 }) hP hs1 addr hin
        (block.set (dec s addr).blockOff
          (newWord bits (dec s addr).byteOff (wordAt block (dec s addr).blockOff) v))
        (by rw [List.length_set]; exact hlen)
        (mem_set_lt block _ _ hlt (newWord_lt bits _ _ v hb hoff hwlt hv))
      have h' : writeBlock P sets1 (dec s addr) (block.set (dec s addr).blockOff
        (newWord bits (dec s addr).byteOff (wordAt block (dec s addr).blockOff) v)) = .ok _ := h
      rw [hwbk] at h'
      cases h'
    | ok r =>
      obtain ⟨sets2, hit', displaced⟩ := r
      obtain ⟨m', hdn, hds, hall⟩ := putBlock_evo (s := { s with sets := sets1 }) hP hs1 addr hin _
        (by rw [List.length_set]; exact hlen)
        (mem_set_lt block _ _ hlt (newWord_lt bits _ _ v hb hoff hwlt hv)) sets2 hit' displaced hwbk
      simp only
      cases displaced with
      | none =>
        simp only
        obtain ⟨k1, k2⟩ := hall { s with sets := sets2, hits := s.hits + (if hit = true then 1 else 0), lastHit := hit, accesses := s.accesses + 1 } rfl rfl (hdn rfl).symm
        exact ⟨e1.trans k1, fun _ => k2⟩
      | some bw =>
        obtain ⟨b, ws'⟩ := bw
        have hwbm : writeBlockToMem s.mem b ws' 0 = (m', none) := hds b ws' rfl
        simp only [hwbm]
        obtain ⟨k1, k2⟩ := hall { s with sets := sets2, mem := m', hits := s.hits + (if hit = true then 1 else 0), lastHit := hit, accesses := s.accesses + 1 } rfl rfl rfl
        exact ⟨e1.trans k1, fun _ => k2⟩
  · have hoff : ¬ (dec s addr).byteOff + bits / 8 ≤ 4 := hw
    rw [intoBlock_crossing bits (dec s addr) block v hb hoff (decode_byteOff_lt _ _ _)]
    exact ⟨e1, fun h => absurd h hw⟩

/-- A write of the write-back system (offered width, value that fits; any address, accepted or
    rejected) is an `Evo` step, and an accepted one leaves the block of `addr` resident
    (write-allocate). -/
theorem writeWB_evo {s : DSys σ} (hP : PolicyOK P s.geo.assoc WFp) (hs : CInv WFp s)
    (bits : Nat) (addr : Int) (v : Nat) (hb : widthOK bits) (hv : v < 2 ^ bits) :
    Evo s (s.writeWB P bits addr v).sys ∧
      (inWord bits addr → inData addr → resident (s.writeWB P bits addr v).sys addr = true) := by
  have hk : (dec s addr).setIdx < 2 ^ s.geo.idxBits := decode_setIdx_lt _ _ _
  obtain ⟨sets1, hrb, hsets1, hl1⟩ := readBlock_spec hP hs.sets (dec s addr) hk
  cases hlk : lookup s.sets (dec s addr).setIdx (dec s addr).tag with
  | some w =>
    rw [hlk] at hrb
    obtain ⟨c1, c2, _⟩ := hit_spec hs addr w hlk
    have hin : inData addr := by
      apply Classical.byContradiction
      intro h
      rw [not_resident_of_bad hs.toCInvS addr h] at hlk
      cases hlk
    rw [writeWB_hit s bits addr v sets1 w.vals hrb]
    obtain ⟨k1, k2⟩ := wbFinish_evo hP hs sets1 hsets1 hl1 bits addr v true hb hin hv w.vals c1 c2
    exact ⟨k1, fun hw _ => k2 hw⟩
  | none =>
    rw [hlk] at hrb
    by_cases hin : inData addr
    · obtain ⟨ws, hf, c1, c2, _⟩ := fetch_spec hs addr hin hlk
      rw [writeWB_miss s bits addr v sets1 ws hrb hf]
      obtain ⟨k1, k2⟩ := wbFinish_evo hP hs sets1 hsets1 hl1 bits addr v false hb hin hv ws c1 c2
      exact ⟨k1, fun hw _ => k2 hw⟩
    · obtain ⟨n, hn⟩ := words_succ s.geo
      have hbase : (dec s addr).blockBase < 16384 := by
        have h4 : wrap32 addr = (dec s addr).blockBase + 4 * (dec s addr).blockOff + (dec s addr).byteOff :=
          decode_full_eq _ _ _
        unfold inData at hin
        omega
      have hf := readBlockFromMem_bad (CInvS_memOK hs.toCInvS) (dec s addr).blockBase n hbase
      rw [← hn] at hf
      rw [writeWB_miss_err s bits addr v sets1 _ hrb hf]
      exact ⟨Evo.of_lookup_eq _ _ rfl rfl hl1, fun _ h => absurd h hin⟩

end ArchSim.Lemmas.C12Prog
