/-
C05 helper lemmas, part 9: the error cases of the data pass, and the converse of the layout theorem —
a data pass that reports no error was given well-formed declarations with pairwise distinct names.
-/
import ArchSim.Lemmas.C05Read

namespace ArchSim.Lemmas.C05
open ArchSim ArchSim.Asm ArchSim.Rv

/-- the item is one of the three kinds of declaration -/
def isDeclKind : Item → Bool
  | .varDecl .. => true
  | .strDecl .. => true
  | .zeroDecl .. => true
  | _ => false

theorem isDeclKind_of_isDecl (it : Item) (h : isDecl it = true) : isDeclKind it = true := by
  cases it <;> first | rfl | cases h

/-- an entry with an in-line label, or that is not a declaration, is a data-syntax error -/
theorem writeData_cons_bad (k : Nat) (line : String) (t : Tok) (rest : List Entry) (o : DataOut)
    (hbad : t.lbl.isSome = true ∨ isDeclKind t.item = false) :
    writeData ((k, line, t) :: rest) o = { o with err := some (.parser "ParserDataSyntaxException" k line) } := by
  obtain ⟨lbl, item⟩ := t
  simp only at hbad
  by_cases hl : lbl.isSome = true
  · simp only [writeData, hl, if_true]
  · have hk : isDeclKind item = false := by
      rcases hbad with h | h
      · exact absurd h hl
      · exact h
    simp only [writeData, hl, Bool.false_eq_true, if_false]
    cases item <;> first | rfl | cases hk

/-- a declaration whose name is already in the table is a duplicate error -/
theorem writeData_cons_dup (k : Nat) (line : String) (t : Tok) (rest : List Entry) (o : DataOut)
    (hl : t.lbl = none) (hk : isDeclKind t.item = true) (hf : (lookupVar o.vars (declName t.item)).isSome = true) :
    writeData ((k, line, t) :: rest) o = { o with err := some (.parser "ParserDataDuplicateException" k line) } := by
  obtain ⟨lbl, item⟩ := t
  simp only at hl hk hf
  subst hl
  cases item with
  | varDecl n ty vals =>
    simp only [declName] at hf
    simp only [writeData, Option.isSome_none, Bool.false_eq_true, if_false, hf, if_true]
  | strDecl n body =>
    simp only [declName] at hf
    simp only [writeData, Option.isSome_none, Bool.false_eq_true, if_false, hf, if_true]
  | zeroDecl n c =>
    simp only [declName] at hf
    simp only [writeData, Option.isSome_none, Bool.false_eq_true, if_false, hf, if_true]
  | str s => cases hk
  | grp p => cases hk
  | directive d => cases hk

/-- one step on a declaration with a fresh name (no condition on the `.zero` count) -/
theorem writeData_cons_kind (k : Nat) (line : String) (t : Tok) (rest : List Entry) (o : DataOut)
    (hl : t.lbl = none) (hk : isDeclKind t.item = true) (hf : lookupVar o.vars (declName t.item) = none) :
    writeData ((k, line, t) :: rest) o =
      match declWrite t.item o.mem (align4 o.ctr) with
      | (m, a', some e) =>
        { o with mem := m, ctr := a', vars := o.vars ++ [(declName t.item, align4 o.ctr, declSize t.item)], err := some e }
      | (m, a', none) =>
        writeData rest { o with mem := m, ctr := a', vars := o.vars ++ [(declName t.item, align4 o.ctr, declSize t.item)] } := by
  obtain ⟨lbl, item⟩ := t
  simp only at hl hk hf
  subst hl
  cases item with
  | varDecl n ty vals =>
    simp only [declName] at hf
    simp only [writeData, Option.isSome_none, Bool.false_eq_true, if_false, hf, declWrite, declName, declSize, tyBits]
    generalize writeSeq _ vals o.mem (align4 o.ctr) = r
    obtain ⟨m, a', e⟩ := r
    cases e <;> rfl
  | strDecl n body =>
    simp only [declName] at hf
    simp only [writeData, Option.isSome_none, Bool.false_eq_true, if_false, hf, declWrite, declName, declSize]
    generalize writeSeq 8 _ o.mem (align4 o.ctr) = r
    obtain ⟨m, a', e⟩ := r
    cases e <;> rfl
  | zeroDecl n c =>
    simp only [declName] at hf
    simp only [writeData, Option.isSome_none, Bool.false_eq_true, if_false, hf, declWrite, declName, declSize]
  | str s => cases hk
  | grp p => cases hk
  | directive d => cases hk

/-- Converse of the layout theorem: if the data pass ends without error then every entry was a
    declaration without in-line label, the names are pairwise distinct and none was in the table before. -/
theorem writeData_no_error (es : List Entry) (o : DataOut) (h : (writeData es o).err = none) :
    (∀ e ∈ es, e.2.2.lbl = none ∧ isDeclKind e.2.2.item = true) ∧ ((itemsOf es).map declName).Nodup ∧
      (∀ it ∈ itemsOf es, lookupVar o.vars (declName it) = none) := by
  induction es generalizing o with
  | nil => exact ⟨by simp, by simp [itemsOf], by simp [itemsOf]⟩
  | cons e rest ih =>
    obtain ⟨k, line, t⟩ := e
    by_cases hbad : t.lbl.isSome = true ∨ isDeclKind t.item = false
    · rw [writeData_cons_bad k line t rest o hbad] at h; cases h
    · have hl : t.lbl = none := by
        cases hx : t.lbl with
        | none => rfl
        | some x => exact absurd (Or.inl (by rw [hx]; rfl)) hbad
      have hk : isDeclKind t.item = true := by
        cases hx : isDeclKind t.item with
        | true => rfl
        | false => exact absurd (Or.inr hx) hbad
      cases hf : lookupVar o.vars (declName t.item) with
      | some r =>
        rw [writeData_cons_dup k line t rest o hl hk (by rw [hf]; rfl)] at h; cases h
      | none =>
        rw [writeData_cons_kind k line t rest o hl hk hf] at h
        generalize declWrite t.item o.mem (align4 o.ctr) = r at h
        obtain ⟨m, a', e⟩ := r
        cases e with
        | some x => cases h
        | none =>
          simp only at h
          obtain ⟨ih1, ih2, ih3⟩ := ih _ h
          simp only at ih3
          have hit : itemsOf ((k, line, t) :: rest) = t.item :: itemsOf rest := rfl
          rw [hit]
          refine ⟨?_, ?_, ?_⟩
          · intro e he
            rcases List.mem_cons.mp he with rfl | he
            · exact ⟨hl, hk⟩
            · exact ih1 e he
          · simp only [List.map_cons, List.nodup_cons]
            refine ⟨?_, ih2⟩
            intro hmem
            obtain ⟨it, hit', hname⟩ := List.mem_map.mp hmem
            have := ih3 it hit'
            rw [lookupVar_none_iff] at this
            apply this
            simp only [List.map_append, List.map_cons, List.map_nil, List.mem_append, List.mem_singleton]
            exact Or.inr hname
          · intro it hit'
            rcases List.mem_cons.mp hit' with rfl | hit'
            · exact hf
            · have := ih3 it hit'
              rw [lookupVar_none_iff] at this ⊢
              intro hm
              apply this
              simp only [List.map_append, List.mem_append]
              exact Or.inl hm

/-- all `.zero` counts are non-negative (guaranteed by the grammar: the count is a digit string) -/
def zerosNonneg (es : List Entry) : Prop := ∀ e ∈ es, ∀ n c, e.2.2.item = .zeroDecl n c → 0 ≤ c

/-- a data pass from the initial state that reports no error satisfies `DataOk`, provided the `.zero`
    counts are non-negative and the segment fits below 2^32 -/
theorem dataOk_of_no_error (es : List Entry) (h : (writeData es dataInit).err = none) (hz : zerosNonneg es)
    (hfit : layoutEnd (itemsOf es) 16384 ≤ 4294967296) : DataOk es := by
  obtain ⟨h1, h2, _⟩ := writeData_no_error es dataInit h
  refine ⟨?_, h2, hfit⟩
  intro e he
  obtain ⟨hl, hk⟩ := h1 e he
  simp only [entryOk, hl, Option.isNone_none, Bool.true_and]
  cases hit : e.2.2.item with
  | zeroDecl n c => simp only [isDecl, decide_eq_true_eq]; exact hz e he n c hit
  | varDecl n ty vals => rfl
  | strDecl n b => rfl
  | str s => rw [hit] at hk; cases hk
  | grp p => rw [hit] at hk; cases hk
  | directive d => rw [hit] at hk; cases hk

end ArchSim.Lemmas.C05
