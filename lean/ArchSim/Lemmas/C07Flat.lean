/-
C07 helper lemmas, part 6: without caches (flat data memory, uncached instruction memory) every
penalty term is zero, so every step adds exactly one cycle.
-/
import ArchSim.Lemmas.C07Single

namespace ArchSim.Lemmas.C07
open ArchSim ArchSim.Rv ArchSim.Pipe

theorem read_flat_mem (m : Mem.Mem) (bits : Nat) (a : Int) (c : Bool) :
    ((MemSys.flat m).read bits a c).mem = .flat m := by
  unfold MemSys.read; simp only; split <;> rfl

theorem printStrLoop_flat (fuel : Nat) (m : Mem.Mem) (a : Int) (acc : List Char) :
    (printStrLoop fuel (.flat m) a acc).1 = .flat m := by
  induction fuel generalizing a acc with
  | zero => rfl
  | succ n ih =>
    unfold printStrLoop
    simp only [read_flat_mem]
    split
    · rfl
    · split
      · rfl
      · exact ih _ _

theorem processEcall_flat (s : St) (m : Mem.Mem) (h : s.mem = .flat m) : (processEcall s).1 = .flat m := by
  unfold processEcall
  simp only [h]
  repeat' split
  all_goals first
    | rfl
    | (rename_i hp; have := printStrLoop_flat printStrFuel m (s.regs 10) []; rw [hp] at this; exact this)

theorem exStage_flat (s : St) (inp l2 l3 : Option Latch) (m : Mem.Mem) (h : s.mem = .flat m) :
    (exStage s inp l2 l3).st.mem = .flat m := by
  have hp := processEcall_flat s m h
  unfold exStage
  repeat' split
  all_goals first
    | exact h
    | (rename_i he; rw [he] at hp; exact hp)

theorem exO_flat (p : PSt) (m : Mem.Mem) (h : p.st.mem = .flat m) : (exO p).st.mem = .flat m :=
  exStage_flat _ _ _ _ m (by rw [sWB_mem, h])

theorem memExtra_flat (p : PSt) (m : Mem.Mem) (h : p.st.mem = .flat m) : memExtra p = 0 := by
  unfold memExtra; rw [exO_flat p m h, maExtra_flat]

theorem accessExtra_flat (i : Instr) (regs : Nat → Nat) (m : Mem.Mem) : accessExtra i regs (.flat m) = 0 := by
  unfold accessExtra
  split
  · exact read_flat_extra ..
  · exact write_flat_extra ..
  · rfl

theorem singleExtra_flat (s : St) (m : Mem.Mem) (hm : s.mem = .flat m) (hc : s.imem.cache = none) :
    singleExtra s = 0 := by
  unfold singleExtra
  split
  · rfl
  · rw [fetch_extra_none _ _ hc, hm]
    split
    · simp [accessExtra_flat]
    · rfl

end ArchSim.Lemmas.C07
