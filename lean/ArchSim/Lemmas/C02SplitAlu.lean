/-
C02 (data path), part 4: the families that never fault — R-type, I-type ALU, shifts, branches,
lui, auipc, jal, jalr — in GENERAL POSITION: the instruction sits at any address `0 ≤ a < 16384`, its
operands were read from the registers of the state `t` it completes in, and the pc of `t` is arbitrary.
For each family: completing the instruction through EX/MEM/WB gives exactly the state
`behavior()` + pc increment gives from `t` with the pc at `a` (`AgreeAt`), and no fault.
Core Lean only.
-/
import ArchSim.Lemmas.C02SplitFamilies
set_option linter.unusedSimpArgs false

namespace ArchSim.Lemmas.C02Split
open ArchSim ArchSim.Rv ArchSim.Pipe

/-- Unfold both sides of a family lemma. -/
local macro "fam_simp" "[" ts:Lean.Parser.Tactic.simpLemma,* "]" : tactic =>
  `(tactic| simp [behavior, applyTarget, wbSt, wbRegs, wbData, memLatch, memCount, memFlush, exBase, dAt, sAt,
      ctlOf, writeReg, writeBack, St.setReg, accessRegs, $ts,*])

theorem agree_r (i : Instr) (t : St) (a : Int) (hty : i.op.ty = .r) (hregs : ∀ r, t.regs r < 4294967296)
    (h0 : 0 ≤ a) (h1 : a < 16384) :
    AgreeAt t.instrs t.pc a (completeIDEX (some (dAt i a t.regs)) t) (singleTail i (sAt t a)) := by
  obtain ⟨v, hv, hw⟩ := aluCompute_r i _ _ hty (hregs i.rs1) (hregs i.rs2)
  have hne : i.op ≠ .ecall := by intro h; simp [h, Op.ty] at hty
  have halu : aluCompute (dAt i a t.regs).instr (aluIn1 (dAt i a t.regs)) (aluIn2 (dAt i a t.regs)) =
      some (none, some v) := by
    simp [dAt, aluIn1, aluIn2, ctlOf, hty, accessRegs, hv]
  rw [completeIDEX_noMem (dAt i a t.regs) t none (some v) hne halu (by simp [dAt, hty]) (by simp [dAt, hty])]
  rw [singleTail_nonLoad i _ (by simp [hty])]
  refine AgreeAt.seq ?_ ?_ ?_ ?_ <;> fam_simp [hty, hw]
  omega

theorem isAluI_facts (op : Op) (h : Op.isAluI op = true) :
    op.ty = .i ∧ op ≠ .jalr ∧ op ≠ .ecall ∧ op ≠ .ebreak := by
  cases op <;> simp [Op.isAluI, Op.ty] at h ⊢

theorem isAluI_of (op : Op) (h1 : op.ty = .i) (h2 : op ≠ .jalr) (h3 : op ≠ .ecall) (h4 : op ≠ .ebreak) :
    Op.isAluI op = true := by
  cases op <;> simp [Op.isAluI, Op.ty] at h1 h2 h3 h4 ⊢

theorem agree_i (i : Instr) (t : St) (a : Int) (hop : Op.isAluI i.op = true)
    (hregs : ∀ r, t.regs r < 4294967296) (h0 : 0 ≤ a) (h1 : a < 16384) :
    AgreeAt t.instrs t.pc a (completeIDEX (some (dAt i a t.regs)) t) (singleTail i (sAt t a)) := by
  obtain ⟨hty, hj, he, hb⟩ := isAluI_facts i.op hop
  obtain ⟨v, hv, hw⟩ := aluCompute_i i _ i.imm hop (hregs i.rs1)
  have halu : aluCompute (dAt i a t.regs).instr (aluIn1 (dAt i a t.regs)) (aluIn2 (dAt i a t.regs)) =
      some (none, some v) := by
    simp [dAt, aluIn1, aluIn2, ctlOf, hty, hj, accessRegs, hv]
  rw [completeIDEX_noMem (dAt i a t.regs) t none (some v) he halu (by simp [dAt, hty]) (by simp [dAt, hty])]
  rw [singleTail_nonLoad i _ (by simp [hty])]
  refine AgreeAt.seq ?_ ?_ ?_ ?_ <;> fam_simp [hty, hj, he, hb, hw]
  omega

theorem shift_facts (op : Op) (h : op.ty = .shiftI) : op ≠ .jalr ∧ op ≠ .ecall := by
  cases op <;> simp [Op.ty] at h ⊢

theorem agree_shift (i : Instr) (t : St) (a : Int) (hty : i.op.ty = .shiftI)
    (hregs : ∀ r, t.regs r < 4294967296) (hi0 : 0 ≤ i.imm) (hi1 : i.imm < 32) (h0 : 0 ≤ a) (h1 : a < 16384) :
    AgreeAt t.instrs t.pc a (completeIDEX (some (dAt i a t.regs)) t) (singleTail i (sAt t a)) := by
  obtain ⟨hj, he⟩ := shift_facts i.op hty
  obtain ⟨v, hv, hw⟩ := aluCompute_shift i _ hty (hregs i.rs1) hi0 hi1
  have halu : aluCompute (dAt i a t.regs).instr (aluIn1 (dAt i a t.regs)) (aluIn2 (dAt i a t.regs)) =
      some (none, some v) := by
    simp [dAt, aluIn1, aluIn2, ctlOf, hty, hj, accessRegs, hv]
  rw [completeIDEX_noMem (dAt i a t.regs) t none (some v) he halu (by simp [dAt, hty]) (by simp [dAt, hty])]
  rw [singleTail_nonLoad i _ (by simp [hty])]
  refine AgreeAt.seq ?_ ?_ ?_ ?_ <;> fam_simp [hty, hj, hw]
  omega

theorem b_facts (op : Op) (h : op.ty = .b) : op ≠ .jalr ∧ op ≠ .ecall ∧ op ≠ .jal := by
  cases op <;> simp [Op.ty] at h ⊢

/-- Branches: taken ⇔ the MEM stage flushes to `pc + imm` and counts the branch. -/
theorem agree_b (i : Instr) (t : St) (a : Int) (hty : i.op.ty = .b) (hregs : ∀ r, t.regs r < 4294967296)
    (h0 : 0 ≤ a) (h1 : a < 16384) :
    AgreeAt t.instrs t.pc a (completeIDEX (some (dAt i a t.regs)) t) (singleTail i (sAt t a)) := by
  obtain ⟨hj, he, hjal⟩ := b_facts i.op hty
  have hv := aluCompute_b i _ _ hty (hregs i.rs1) (hregs i.rs2)
  have halu : aluCompute (dAt i a t.regs).instr (aluIn1 (dAt i a t.regs)) (aluIn2 (dAt i a t.regs)) =
      some (some (branchCond i.op (t.regs i.rs1) (t.regs i.rs2)), none) := by
    simp [dAt, aluIn1, aluIn2, ctlOf, hty, accessRegs, hv]
  rw [completeIDEX_noMem (dAt i a t.regs) t _ none he halu (by simp [dAt, hty]) (by simp [dAt, hty])]
  rw [singleTail_nonLoad i _ (by simp [hty])]
  by_cases hc : branchCond i.op (t.regs i.rs1) (t.regs i.rs2) = true
  · refine AgreeAt.jump ?_ ?_ ?_ <;> fam_simp [hty, hc]
    omega
  · refine AgreeAt.seq ?_ ?_ ?_ ?_ <;> fam_simp [hty, hc]
    omega

theorem u_facts (op : Op) (h : op.ty = .u) : op ≠ .jalr ∧ op ≠ .ecall ∧ op ≠ .jal ∧ (op = .lui ∨ op = .auipc) := by
  cases op <;> simp [Op.ty] at h ⊢

theorem agree_lui (i : Instr) (t : St) (a : Int) (hop : i.op = .lui) (h0 : 0 ≤ a) (h1 : a < 16384) :
    AgreeAt t.instrs t.pc a (completeIDEX (some (dAt i a t.regs)) t) (singleTail i (sAt t a)) := by
  have hty : i.op.ty = .u := by rw [hop]; rfl
  have he : i.op ≠ .ecall := by rw [hop]; decide
  have halu : aluCompute (dAt i a t.regs).instr (aluIn1 (dAt i a t.regs)) (aluIn2 (dAt i a t.regs)) =
      some (none, none) := by
    simp [dAt, aluCompute, hop, Op.ty]
  rw [completeIDEX_noMem (dAt i a t.regs) t none none he halu (by simp [dAt, hty]) (by simp [dAt, hty])]
  rw [singleTail_nonLoad i _ (by simp [hty])]
  refine AgreeAt.seq ?_ ?_ ?_ ?_ <;> fam_simp [hop, Op.ty]
  omega

/-- auipc: `alu_src_1 = false` selects the address of the instruction, not the (advanced) pc. -/
theorem agree_auipc (i : Instr) (t : St) (a : Int) (hop : i.op = .auipc) (h0 : 0 ≤ a) (h1 : a < 16384) :
    AgreeAt t.instrs t.pc a (completeIDEX (some (dAt i a t.regs)) t) (singleTail i (sAt t a)) := by
  have hty : i.op.ty = .u := by rw [hop]; rfl
  have he : i.op ≠ .ecall := by rw [hop]; decide
  have halu : aluCompute (dAt i a t.regs).instr (aluIn1 (dAt i a t.regs)) (aluIn2 (dAt i a t.regs)) =
      some (none, some (a + i.imm * 4096)) := by
    simp [dAt, aluCompute, aluIn1, aluIn2, ctlOf, accessRegs, hop, Op.ty]
  rw [completeIDEX_noMem (dAt i a t.regs) t none _ he halu (by simp [dAt, hty]) (by simp [dAt, hty])]
  rw [singleTail_nonLoad i _ (by simp [hty])]
  refine AgreeAt.seq ?_ ?_ ?_ ?_ <;> fam_simp [hop, Op.ty]
  omega

theorem j_facts (op : Op) (h : op.ty = .j) : op = .jal := by
  cases op <;> simp [Op.ty] at h ⊢

/-- jal: `jump` ⇒ flush to `pc + imm`, `rd := pc + 4`, procedure counter. -/
theorem agree_jal (i : Instr) (t : St) (a : Int) (hty : i.op.ty = .j) :
    AgreeAt t.instrs t.pc a (completeIDEX (some (dAt i a t.regs)) t) (singleTail i (sAt t a)) := by
  have hop := j_facts i.op hty
  have he : i.op ≠ .ecall := by rw [hop]; decide
  have halu : aluCompute (dAt i a t.regs).instr (aluIn1 (dAt i a t.regs)) (aluIn2 (dAt i a t.regs)) =
      some (none, none) := by
    simp [dAt, aluCompute, hty]
  rw [completeIDEX_noMem (dAt i a t.regs) t none none he halu (by simp [dAt, hty]) (by simp [dAt, hty])]
  rw [singleTail_nonLoad i _ (by simp [hty])]
  refine AgreeAt.jump ?_ ?_ ?_ <;> fam_simp [hop, Op.ty]
  omega

/-- jalr: `alu_to_pc` ⇒ flush to the ALU result. Both sides wrap the target to 32 bits and clear
    bit 0; `rd = rs1` included (the operand was read in ID, before WB writes the link value). -/
theorem agree_jalr (i : Instr) (t : St) (a : Int) (hop : i.op = .jalr) (hregs : ∀ r, t.regs r < 4294967296)
    (hi0 : -2048 ≤ i.imm) (hi1 : i.imm < 2048) :
    AgreeAt t.instrs t.pc a (completeIDEX (some (dAt i a t.regs)) t) (singleTail i (sAt t a)) := by
  have hty : i.op.ty = .i := by rw [hop]; rfl
  have he : i.op ≠ .ecall := by rw [hop]; decide
  have ht := jalr_target (t.regs i.rs1) i.imm (hregs i.rs1) hi0 hi1
  have halu : aluCompute (dAt i a t.regs).instr (aluIn1 (dAt i a t.regs)) (aluIn2 (dAt i a t.regs)) =
      some (none, some ((wrapU ((t.regs i.rs1 : Int) + i.imm) - wrapU ((t.regs i.rs1 : Int) + i.imm) % 2 : Nat) : Int)) := by
    simp [dAt, aluCompute, aluIn1, aluIn2, ctlOf, accessRegs, hop, Op.ty]
  rw [completeIDEX_noMem (dAt i a t.regs) t none _ he halu (by simp [dAt, hty]) (by simp [dAt, hty])]
  rw [singleTail_nonLoad i _ (by simp [hty])]
  refine AgreeAt.jump ?_ ?_ ?_ <;> fam_simp [hop, Op.ty, ht]

end ArchSim.Lemmas.C02Split
