/-
Helper lemmas for C18 (flat memory), part 1: writes.
The model's `writeNFrom` is a fold of single-cell stores over the list `storedFrom`, which is the
closed form `opCells` of the specification.
-/
import ArchSim.Model.Mem
import ArchSim.Spec.ByteStore

namespace ArchSim.Lemmas.C18
open ArchSim.Mem ArchSim.Spec.ByteStore

/-! ### single-cell store on a memory -/

/-- Store value `p.2` at cell address `p.1` (already wrapped and range-checked). -/
def put (m : Mem) (p : Int × Nat) : Mem :=
  { m with cells := fun x => if x = p.1 then p.2 else m.cells x,
           keys := if p.1 ∈ m.keys then m.keys else m.keys ++ [p.1] }

def applyCells (m : Mem) (l : List (Int × Nat)) : Mem := l.foldl put m

/-- The fold step of `lastVal`. -/
def pick (x : Int) (acc : Nat) (p : Int × Nat) : Nat := if p.1 = x then p.2 else acc

theorem lastVal_eq (l : List (Int × Nat)) (x : Int) : lastVal l x = l.foldl (pick x) 0 := rfl

@[simp] theorem put_cfg (m : Mem) (p) : (put m p).cfg = m.cfg := rfl

@[simp] theorem applyCells_nil (m : Mem) : applyCells m [] = m := rfl
@[simp] theorem applyCells_cons (m : Mem) (p l) : applyCells m (p :: l) = applyCells (put m p) l := rfl
theorem applyCells_append (m : Mem) (l₁ l₂) :
    applyCells m (l₁ ++ l₂) = applyCells (applyCells m l₁) l₂ := by
  simp [applyCells, List.foldl_append]

@[simp] theorem applyCells_cfg (m : Mem) (l) : (applyCells m l).cfg = m.cfg := by
  induction l generalizing m with
  | nil => rfl
  | cons p l ih => simp [ih]

theorem put_cells (m : Mem) (p) (x : Int) : (put m p).cells x = pick x (m.cells x) p := by
  simp only [put, pick]
  by_cases h : x = p.1
  · simp [h]
  · have h' : ¬ p.1 = x := fun e => h e.symm
    simp [h, h']

theorem applyCells_cells (m : Mem) (l) (x : Int) :
    (applyCells m l).cells x = l.foldl (pick x) (m.cells x) := by
  induction l generalizing m with
  | nil => rfl
  | cons p l ih => simp [ih, put_cells]

theorem put_keys_mem (m : Mem) (p) (x : Int) : x ∈ (put m p).keys ↔ x ∈ m.keys ∨ x = p.1 := by
  simp only [put]
  by_cases h : p.1 ∈ m.keys
  · simp only [h, if_true]
    constructor
    · exact Or.inl
    · rintro (h' | h')
      · exact h'
      · exact h' ▸ h
  · simp [h]

theorem applyCells_keys_mem (m : Mem) (l) (x : Int) :
    x ∈ (applyCells m l).keys ↔ x ∈ m.keys ∨ x ∈ l.map Prod.fst := by
  induction l generalizing m with
  | nil => simp
  | cons p l ih =>
    simp only [applyCells_cons, ih, put_keys_mem, List.map_cons, List.mem_cons]
    constructor
    · rintro ((h | h) | h)
      · exact Or.inl h
      · exact Or.inr (Or.inl h)
      · exact Or.inr (Or.inr h)
    · rintro (h | h | h)
      · exact Or.inl (Or.inl h)
      · exact Or.inl (Or.inr h)
      · exact Or.inr h

theorem put_keys_nodup (m : Mem) (p) (h : m.keys.Nodup) : (put m p).keys.Nodup := by
  simp only [put]
  by_cases hp : p.1 ∈ m.keys
  · simpa [hp] using h
  · simp only [hp, if_false]
    rw [List.nodup_append]
    refine ⟨h, by simp, ?_⟩
    intro a ha b hb
    simp only [List.mem_singleton] at hb
    subst hb
    intro e
    exact hp (e ▸ ha)

theorem applyCells_keys_nodup (m : Mem) (l) (h : m.keys.Nodup) : (applyCells m l).keys.Nodup := by
  induction l generalizing m with
  | nil => exact h
  | cons p l ih => exact ih _ (put_keys_nodup m p h)

/-! ### `writeCell`, `writeNFrom` as folds of `put` -/

theorem writeCell_ok (m : Mem) (a : Int) (v : Nat) (h : inRange m.cfg (wrapAddr m.cfg a) = true) :
    writeCell m a v = .ok (put m (wrapAddr m.cfg a, v)) := by
  simp [writeCell, h, put]

theorem writeCell_err (m : Mem) (a : Int) (v : Nat) (h : inRange m.cfg (wrapAddr m.cfg a) = false) :
    writeCell m a v = .error ⟨wrapAddr m.cfg a⟩ := by
  simp [writeCell, h]

/-- The stores of `writeNFrom`, following its recursion. -/
def storedFrom (c : Cfg) (a : Int) : (n i v : Nat) → List (Int × Nat)
  | 0,     _, _ => []
  | n + 1, i, v =>
    if cellOk c a i then
      (wrapAddr c (a + i), v % 2 ^ c.cellBits) :: storedFrom c a n (i + 1) (v / 2 ^ c.cellBits)
    else []

/-- The error of `writeNFrom`, following its recursion. -/
def errFrom (c : Cfg) (a : Int) : (n i : Nat) → Option AddrErr
  | 0,     _ => none
  | n + 1, i => if cellOk c a i then errFrom c a n (i + 1) else some ⟨wrapAddr c (a + i)⟩

theorem writeNFrom_eq (m : Mem) (a : Int) (n i v : Nat) :
    writeNFrom m a n i v = (applyCells m (storedFrom m.cfg a n i v), errFrom m.cfg a n i) := by
  induction n generalizing m i v with
  | zero => rfl
  | succ n ih =>
    simp only [writeNFrom, storedFrom, errFrom, cellOk]
    by_cases h : inRange m.cfg (wrapAddr m.cfg (a + i)) = true
    · rw [writeCell_ok m _ _ h]
      simp only [h, if_true, applyCells_cons]
      rw [ih]
      simp
    · have h' : inRange m.cfg (wrapAddr m.cfg (a + i)) = false := by simpa using h
      rw [writeCell_err m _ _ h']
      simp [h']

/-! ### closed forms -/

theorem cellVal_zero (c : Cfg) (v : Nat) : cellVal c v 0 = v % 2 ^ c.cellBits := by
  simp [cellVal]

theorem cellVal_succ (c : Cfg) (v j : Nat) :
    cellVal c (v / 2 ^ c.cellBits) j = cellVal c v (j + 1) := by
  simp only [cellVal]
  rw [Nat.div_div_eq_div_mul, ← Nat.pow_add]
  congr 3
  rw [Nat.succ_mul]; omega

theorem cellVal_lt (c : Cfg) (v i : Nat) : cellVal c v i < 2 ^ c.cellBits :=
  Nat.mod_lt _ (Nat.two_pow_pos _)

theorem storedFrom_closed (c : Cfg) (a : Int) (n i v : Nat) :
    storedFrom c a n i v =
      ((List.range n).takeWhile (fun j => cellOk c a (i + j))).map
        (fun j => (wrapAddr c (a + ((i + j : Nat) : Int)), cellVal c v j)) := by
  induction n generalizing i v with
  | zero => rfl
  | succ n ih =>
    rw [storedFrom, List.range_succ_eq_map, List.takeWhile_cons]
    simp only [Nat.add_zero]
    by_cases h : cellOk c a i = true
    · simp only [h, if_true, List.map_cons, cellVal_zero, List.takeWhile_map, List.map_map]
      congr 1
      rw [ih]
      have e1 : (fun j => cellOk c a (i + 1 + j)) = ((fun j => cellOk c a (i + j)) ∘ Nat.succ) := by
        funext j; simp only [Function.comp]; congr 1; omega
      rw [e1]
      apply List.map_congr_left
      intro j _
      simp only [Function.comp, cellVal_succ]
      congr 3
      omega
    · simp [h]

theorem errFrom_closed (c : Cfg) (a : Int) (n i : Nat) :
    errFrom c a n i =
      (if ((List.range n).takeWhile (fun j => cellOk c a (i + j))).length < n then
        some ⟨wrapAddr c (a + ((i + ((List.range n).takeWhile (fun j => cellOk c a (i + j))).length : Nat) : Int))⟩
       else none) := by
  induction n generalizing i with
  | zero => rfl
  | succ n ih =>
    rw [errFrom, List.range_succ_eq_map, List.takeWhile_cons]
    simp only [Nat.add_zero]
    by_cases h : cellOk c a i = true
    · simp only [h, if_true, List.takeWhile_map, List.length_cons, List.length_map]
      rw [ih]
      have e1 : (fun j => cellOk c a (i + 1 + j)) = ((fun j => cellOk c a (i + j)) ∘ Nat.succ) := by
        funext j; simp only [Function.comp]; congr 1; omega
      rw [e1]
      simp only [Nat.add_lt_add_iff_right]
      split
      · congr 4; omega
      · rfl
    · simp [h]

theorem mem_takeWhile_true {α} (p : α → Bool) (l : List α) (x : α) (h : x ∈ l.takeWhile p) :
    p x = true := by
  induction l with
  | nil => simp at h
  | cons y l ih =>
    rw [List.takeWhile_cons] at h
    split at h
    · rcases List.mem_cons.mp h with rfl | h'
      · assumption
      · exact ih h'
    · simp at h

/-- `takeWhile` over `range` when the first failing index is known. -/
theorem takeWhile_range (p : Nat → Bool) (n j : Nat) (hj : j ≤ n) (hok : ∀ i, i < j → p i = true)
    (hbad : j < n → p j = false) : (List.range n).takeWhile p = List.range j := by
  induction n generalizing p j with
  | zero =>
    have : j = 0 := by omega
    subst this; rfl
  | succ n ih =>
    rw [List.range_succ_eq_map, List.takeWhile_cons]
    cases j with
    | zero => simp [hbad (by omega)]
    | succ j =>
      rw [if_pos (hok 0 (by omega)), List.takeWhile_map, List.range_succ_eq_map]
      congr 2
      apply ih
      · omega
      · intro i hi; exact hok (i + 1) (by omega)
      · intro h; exact hbad (by omega)

theorem okIdx_of_firstBad (c : Cfg) (a : Int) (n j : Nat) (hj : j ≤ n)
    (hok : ∀ i, i < j → cellOk c a i = true) (hbad : j < n → cellOk c a j = false) :
    okIdx c a n = List.range j :=
  takeWhile_range _ n j hj hok hbad

theorem okIdx_all (c : Cfg) (a : Int) (n : Nat) (hok : ∀ i, i < n → cellOk c a i = true) :
    okIdx c a n = List.range n :=
  okIdx_of_firstBad c a n n (Nat.le_refl _) hok (fun h => absurd h (Nat.lt_irrefl _))

theorem firstBad_le (c : Cfg) (a : Int) (n : Nat) : firstBad c a n ≤ n := by
  have := (List.takeWhile_sublist (l := List.range n) (cellOk c a)).length_le
  simpa [firstBad, okIdx] using this

/-- The stores of an `n`-cell write at `a` (as the model performs them) are the specification's. -/
theorem storedFrom_zero (c : Cfg) (a : Int) (n v : Nat) :
    storedFrom c a n 0 v = (okIdx c a n).map (fun (i : Nat) => (wrapAddr c (a + (i : Int)), cellVal c v i)) := by
  rw [storedFrom_closed]
  simp [okIdx]

theorem errFrom_zero (c : Cfg) (a : Int) (n : Nat) :
    errFrom c a n 0 =
      if firstBad c a n < n then some ⟨wrapAddr c (a + (firstBad c a n : Nat))⟩ else none := by
  rw [errFrom_closed]
  simp [firstBad, okIdx]
  rfl

theorem writeN_eq (m : Mem) (a : Int) (n v : Nat) :
    writeN m a n v =
      (applyCells m ((okIdx m.cfg a n).map (fun (i : Nat) => (wrapAddr m.cfg (a + (i : Int)), cellVal m.cfg v i))),
       if firstBad m.cfg a n < n then some ⟨wrapAddr m.cfg (a + (firstBad m.cfg a n : Nat))⟩
       else none) := by
  rw [writeN, writeNFrom_eq, storedFrom_zero, errFrom_zero]

@[simp] theorem writeN_cfg (m : Mem) (a : Int) (n v : Nat) : (writeN m a n v).1.cfg = m.cfg := by
  rw [writeN_eq]; simp

/-! ### histories -/

theorem applyOp_eq (m : Mem) (op : Op) : applyOp m op = applyCells m (opCells m.cfg op) := by
  cases op with
  | write bits a v =>
    simp only [applyOp, ArchSim.Mem.write, opCells]
    by_cases h : m.cfg.cellBits > bits
    · have : cellsOf m.cfg bits = 0 := by
        simp only [cellsOf]; exact Nat.div_eq_of_lt h
      simp [h, this, okIdx]
    · simp only [h, if_false]
      rw [writeN_eq]

@[simp] theorem applyOp_cfg (m : Mem) (op : Op) : (applyOp m op).cfg = m.cfg := by
  rw [applyOp_eq]; simp

theorem foldl_applyOp (m : Mem) (h : List Op) :
    h.foldl applyOp m = applyCells m (trace m.cfg h) := by
  induction h generalizing m with
  | nil => rfl
  | cons op h ih =>
    rw [List.foldl_cons, ih, applyOp_cfg, applyOp_eq]
    simp [trace, applyCells_append]

theorem run_eq (c : Cfg) (h : List Op) : run c h = applyCells (Mem.empty c) (trace c h) := by
  rw [run, foldl_applyOp]; rfl

theorem run_append (c : Cfg) (h : List Op) (op : Op) : run c (h ++ [op]) = applyOp (run c h) op := by
  simp [run, List.foldl_append]

theorem trace_append (c : Cfg) (h₁ h₂ : List Op) : trace c (h₁ ++ h₂) = trace c h₁ ++ trace c h₂ := by
  simp [trace]

/-! ### values of `lastVal` -/

theorem foldl_pick_bound (x : Int) (b : Nat) (l : List (Int × Nat)) (init : Nat) (hi : init < b)
    (hl : ∀ p ∈ l, p.2 < b) : l.foldl (pick x) init < b := by
  induction l generalizing init with
  | nil => exact hi
  | cons p l ih =>
    rw [List.foldl_cons]
    apply ih
    · simp only [pick]; split
      · exact hl p (by simp)
      · exact hi
    · intro q hq; exact hl q (by simp [hq])

theorem foldl_pick_not_mem (x : Int) (l : List (Int × Nat)) (init : Nat)
    (hx : x ∉ l.map Prod.fst) : l.foldl (pick x) init = init := by
  induction l generalizing init with
  | nil => rfl
  | cons p l ih =>
    simp only [List.map_cons, List.mem_cons, not_or] at hx
    rw [List.foldl_cons, ih _ hx.2]
    simp only [pick]
    rw [if_neg (fun e => hx.1 e.symm)]

/-- Folding `pick` over the stores `(k j, val j)`, `j < n`: the value at `k i` is `val i` provided no
    later store hits the same address. -/
theorem foldl_pick_range (n : Nat) (k : Nat → Int) (val : Nat → Nat) (init : Nat) (i : Nat)
    (hi : i < n) (hd : ∀ j, i < j → j < n → k j ≠ k i) :
    ((List.range n).map (fun j => (k j, val j))).foldl (pick (k i)) init = val i := by
  induction n with
  | zero => omega
  | succ n ih =>
    rw [List.range_succ, List.map_append, List.foldl_append]
    simp only [List.map_cons, List.map_nil, List.foldl_cons, List.foldl_nil, pick]
    by_cases h : i = n
    · subst h; simp
    · rw [if_neg (hd n (by omega) (by omega))]
      exact ih (by omega) (fun j h1 h2 => hd j h1 (by omega))

theorem trace_val_lt (c : Cfg) (h : List Op) : ∀ p ∈ trace c h, p.2 < 2 ^ c.cellBits := by
  intro p hp
  simp only [trace, List.mem_flatMap] at hp
  obtain ⟨op, _, hp⟩ := hp
  cases op with
  | write bits a v =>
    simp only [opCells, List.mem_map] at hp
    obtain ⟨i, _, rfl⟩ := hp
    exact cellVal_lt c v i

theorem trace_key_inRange (c : Cfg) (h : List Op) : ∀ p ∈ trace c h, inRange c p.1 = true := by
  intro p hp
  simp only [trace, List.mem_flatMap] at hp
  obtain ⟨op, _, hp⟩ := hp
  cases op with
  | write bits a v =>
    simp only [opCells, List.mem_map] at hp
    obtain ⟨i, hi, rfl⟩ := hp
    have := mem_takeWhile_true _ _ _ hi
    simpa [cellOk] using this

end ArchSim.Lemmas.C18
