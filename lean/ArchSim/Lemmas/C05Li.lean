/-
C05 / C04 helper lemmas: the pseudo-instruction groups (`li`, `la`, load/store by variable name, `nop`,
`mv`) — what `expandOne` produces, what `instantiate`/`buildInstrs` make of it, and what `behavior`
does when the group is executed.
-/
import ArchSim.Model.Asm

namespace ArchSim.Lemmas.C05
open ArchSim ArchSim.Asm ArchSim.Rv

/-! ### executing a straight-line group -/

/-- Execute a list of instruction objects with `behavior`, one after the other, stopping at the first
    fault (the pc is not advanced: that is the stage's job, `behavior` of these instructions never
    touches it). -/
def runSeq : List Instr → St → BehOut
  | [], s => { st := s, fault := none }
  | i :: is, s =>
    match (behavior i s).fault with
    | some f => { st := (behavior i s).st, fault := some f }
    | none => runSeq is (behavior i s).st

theorem runSeq_nil (s : St) : runSeq [] s = { st := s, fault := none } := rfl

theorem runSeq_cons_ok (i : Instr) (is : List Instr) (s : St) (h : (behavior i s).fault = none) :
    runSeq (i :: is) s = runSeq is (behavior i s).st := by
  simp only [runSeq, h]

theorem runSeq_append_ok (l₁ l₂ : List Instr) (s s' : St) (h : runSeq l₁ s = { st := s', fault := none }) :
    runSeq (l₁ ++ l₂) s = runSeq l₂ s' := by
  induction l₁ generalizing s with
  | nil => simp only [runSeq, BehOut.mk.injEq, and_true] at h; subst h; rfl
  | cons i is ih =>
    cases hf : (behavior i s).fault with
    | none =>
      rw [List.cons_append, runSeq_cons_ok _ _ _ hf]
      rw [runSeq_cons_ok _ _ _ hf] at h
      exact ih _ h
    | some f => simp [runSeq, hf] at h

/-! ### sign extension with literal moduli -/

theorem pow19 : (2 : Int) ^ (20 - 1) = 524288 := by decide
theorem pow11 : (2 : Int) ^ (12 - 1) = 2048 := by decide
theorem pow12 : (2 : Int) ^ (13 - 1) = 4096 := by decide
theorem pow20 : (2 : Int) ^ (21 - 1) = 1048576 := by decide

theorem sext20 (x : Int) : sextImm 20 x = x % 524288 - (x / 524288) % 2 * 524288 := by
  simp only [sextImm, pow19]
theorem sext12 (x : Int) : sextImm 12 x = x % 2048 - (x / 2048) % 2 * 2048 := by
  simp only [sextImm, pow11]
theorem sext13 (x : Int) : sextImm 13 x = x % 4096 - (x / 4096) % 2 * 4096 := by
  simp only [sextImm, pow12]
theorem sext21 (x : Int) : sextImm 21 x = x % 1048576 - (x / 1048576) % 2 * 1048576 := by
  simp only [sextImm, pow20]

/-- the arithmetic core of `li`/`la`: `lui` of the high part followed by `addi` of the low part gives the
    constant modulo 2^32, for EVERY integer `c` (the high part may be 2^20: it wraps to 0 in 20 bits). -/
theorem hiLo_core (c : Int) :
    (wrapU (sextImm 20 (hiLo c).1 * 4096) + wrapU (sextImm 12 (hiLo c).2)) % 4294967296 = wrapU c := by
  simp only [hiLo, wrapU, sext20, sext12]
  split <;> omega

/-- the short form of `li`: a constant in the 12-bit range is unchanged by the constructor -/
theorem small_core (c : Int) (h : ¬ (c > 2047 ∨ c < -2048)) (r0 : Nat) (h0 : r0 = 0) :
    (r0 + wrapU (sextImm 12 c)) % 4294967296 = wrapU c := by
  subst h0
  simp only [wrapU, sext12]
  omega

theorem wrapU_lt (x : Int) : wrapU x < 4294967296 := by
  simp only [wrapU]; omega

/-! ### registers -/

theorem setReg_same (r : Nat → Nat) (rd v : Nat) (h : 0 < rd ∧ rd < 32) : Rv.setReg r rd v rd = v := by
  simp [Rv.setReg, h]

theorem setReg_other (r : Nat → Nat) (rd v x : Nat) (h : x ≠ rd) : Rv.setReg r rd v x = r x := by
  simp [Rv.setReg, h]

theorem setReg_invalid (r : Nat → Nat) (rd v : Nat) (h : ¬ (0 < rd ∧ rd < 32)) : Rv.setReg r rd v = r := by
  funext x
  simp only [Rv.setReg]
  split
  · next hx => exact absurd hx.2 h
  · rfl

theorem setReg_setReg (r : Nat → Nat) (rd v w : Nat) : Rv.setReg (Rv.setReg r rd v) rd w = Rv.setReg r rd w := by
  funext x
  simp only [Rv.setReg]
  split <;> rfl

theorem St_setReg_setReg (s : St) (rd v w : Nat) : (s.setReg rd v).setReg rd w = s.setReg rd w := by
  simp only [St.setReg, setReg_setReg]

theorem St_setReg_invalid (s : St) (rd v : Nat) (h : ¬ (0 < rd ∧ rd < 32)) : s.setReg rd v = s := by
  simp only [St.setReg, setReg_invalid _ _ _ h]

/-! ### mnemonics -/

theorem ofMn_lui : Op.ofMnemonic "lui" = some .lui := by decide
theorem ofMn_addi : Op.ofMnemonic "addi" = some .addi := by decide
theorem ofMn_mnemonic : ∀ op ∈ allOps, Op.ofMnemonic op.mnemonic = some op := by decide
theorem mem_allOps (op : Op) : op ∈ allOps := by cases op <;> decide
theorem ofMn_of_mnemonic (op : Op) : Op.ofMnemonic op.mnemonic = some op := ofMn_mnemonic op (mem_allOps op)

/-! ### instruction objects of the generated base instructions -/

theorem instantiate_lui (ls : Labels) (addr : Int) (k : Nat) (line : String) (rd : Nat) (imm : Int) :
    instantiate ls addr k line (.utype "lui" rd imm) = .ok (mkInstr .lui rd 0 0 imm) := by
  simp only [instantiate, ofMn_lui]

theorem instantiate_addi (ls : Labels) (addr : Int) (k : Nat) (line : String) (a b : Nat) (imm : Int) :
    instantiate ls addr k line (.rri "addi" a b imm) = .ok (mkInstr .addi a b 0 imm) := by
  simp only [instantiate, ofMn_addi, Op.ty]

/-- `op rd, imm(rs1)` for a load mnemonic -/
theorem instantiate_load (ls : Labels) (addr : Int) (k : Nat) (line : String) (mn : String) (op : Op)
    (hop : Op.ofMnemonic mn = some op) (hty : op.ty = .memI) (a b : Nat) (imm : Int) :
    instantiate ls addr k line (.mem mn a imm b) = .ok (mkInstr op a b 0 imm) := by
  simp only [instantiate, hop, hty]

/-- `op rs2, imm(rs1)` for a store mnemonic: the first register of the syntax is the data register -/
theorem instantiate_store (ls : Labels) (addr : Int) (k : Nat) (line : String) (mn : String) (op : Op)
    (hop : Op.ofMnemonic mn = some op) (hty : op.ty = .s) (a b : Nat) (imm : Int) :
    instantiate ls addr k line (.mem mn a imm b) = .ok (mkInstr op 0 b a imm) := by
  simp only [instantiate, hop, hty]

/-! ### behaviour of `lui`, `addi`, loads and stores -/

theorem behavior_lui (rd : Nat) (x : Int) (s : St) :
    behavior (mkInstr .lui rd 0 0 x) s = { st := s.setReg rd (wrapU (sextImm 20 x * 4096)), fault := none } := by
  simp [behavior, mkInstr, Op.ty, storedImm]

theorem behavior_addi (rd rs : Nat) (x : Int) (s : St) :
    behavior (mkInstr .addi rd rs 0 x) s =
      { st := s.setReg rd ((s.regs rs + wrapU (sextImm 12 x)) % 4294967296), fault := none } := by
  simp [behavior, mkInstr, Op.ty, storedImm, aluRI]

/-- the two-instruction group `lui rd, hi; addi rd, rd, lo` -/
def luiAddi (rd : Nat) (a : Int) : List Instr :=
  [mkInstr .lui rd 0 0 (hiLo a).1, mkInstr .addi rd rd 0 (hiLo a).2]

/-- the instruction objects of `li rd, c` -/
def liInstrs (rd : Nat) (c : Int) : List Instr :=
  if c > 2047 ∨ c < -2048 then luiAddi rd c else [mkInstr .addi rd 0 0 c]

/-- `lui rd, hi; addi rd, rd, lo` leaves `a mod 2^32` in `rd` (for every `rd`: writes to `x0` and to
    register numbers ≥ 32 are dropped by the register file) and touches nothing else. -/
theorem runSeq_luiAddi (rd : Nat) (a : Int) (s : St) :
    runSeq (luiAddi rd a) s = { st := s.setReg rd (wrapU a), fault := none } := by
  simp only [luiAddi, runSeq, behavior_lui, behavior_addi, St_setReg_setReg]
  by_cases h : 0 < rd ∧ rd < 32
  · simp only [St.setReg, setReg_same _ _ _ h, hiLo_core]
  · simp only [St_setReg_invalid _ _ _ h]

end ArchSim.Lemmas.C05

