/-
C12 (memory table, program level), part 8: the relation `MRelT` between the data-memory systems of a
run with data cache and of the flat run — `MRel` of C03Prog strengthened by the table invariant
`TRep` — and its preservation by accepted reads / writes and by the print-string loop.
-/
import ArchSim.Lemmas.C12ProgRows
import ArchSim.Lemmas.C03ProgRun

namespace ArchSim.Lemmas.C12Prog
open ArchSim ArchSim.Cache ArchSim.Mem ArchSim.Rv ArchSim.Spec.CacheAbs ArchSim.Spec.TagCache
open ArchSim.Lemmas.C03 ArchSim.Lemmas.C03Prog

theorem CRep.toRepr {l : Bool} {s : DSys Repl.Pol} {m : Mem.Mem} (h : CRep l s m) :
    Repr (Repl.Pol.WF s.geo.assoc) s m := ⟨h.cinv, h.memOK, h.log⟩

/-- An accepted read keeps the table invariant (same flat memory). -/
theorem TRep.read {l : Bool} {s : DSys Repl.Pol} {m : Mem.Mem} (h : CRep l s m) (ht : TRep s m)
    {bits : Nat} {a : Int} (hacc : Accepted bits a) (c : Bool) :
    TRep (s.read (polOps l) bits a c).sys m := by
  obtain ⟨hb, hw, hin⟩ := accepted_split hacc
  have := ht.step (P := polOps l) h.polOK (CRep.toRepr h) (.read bits a c) hb
  have hfs : (flatStep m (.read bits a c)).1 = m := by
    unfold flatStep; split <;> rfl
  rw [hfs] at this
  exact this

/-- An accepted write keeps the table invariant (flat memory after the flat write). -/
theorem TRep.write {l : Bool} {s : DSys Repl.Pol} {m : Mem.Mem} (h : CRep l s m) (ht : TRep s m)
    {bits : Nat} {a : Int} (hacc : Accepted bits a) {v : Nat} (hv : v < 2 ^ bits) (m' : Mem.Mem)
    (hwr : Mem.write m bits a v = some (m', none)) :
    TRep (s.write (polOps l) bits a v false).sys m' := by
  obtain ⟨hb, hw, hin⟩ := accepted_split hacc
  have := ht.step (P := polOps l) h.polOK (CRep.toRepr h) (.write bits a v) ⟨hb, hv⟩
  have hacc' : (Spec.CacheAbs.Op.write bits a v).accepted := ⟨hw, hin⟩
  have hfs : (flatStep m (.write bits a v)).1 = m' := by
    unfold flatStep; rw [if_pos hacc']; simp only [hwr]
  rw [hfs] at this
  exact this

/-- `MRel` of C03Prog together with the memory-table invariant; `w` is the write policy of the cache
    system (`true` = write-through), which never changes. -/
def MRelT (w : Bool) (mc mf : MemSys) : Prop :=
  ∃ (l : Bool) (s : DSys Repl.Pol) (m : Mem.Mem),
    mc = .cached l s ∧ mf = .flat m ∧ CRep l s m ∧ TRep s m ∧ s.wt = w

theorem MRelT.toMRel {w : Bool} {mc mf : MemSys} (h : MRelT w mc mf) : MRel mc mf := by
  obtain ⟨l, s, m, e1, e2, h1, _⟩ := h
  exact ⟨l, s, m, e1, e2, h1⟩

theorem read_wt {l : Bool} {s : DSys Repl.Pol} {m : Mem.Mem} (h : CRep l s m) {bits : Nat} {a : Int}
    (hacc : Accepted bits a) (c : Bool) : (s.read (polOps l) bits a c).sys.wt = s.wt :=
  (step_agrees (P := polOps l) h.polOK (CRep.toRepr h) (.read bits a c) (accepted_split hacc).1).2.2.1

theorem write_wt {l : Bool} {s : DSys Repl.Pol} {m : Mem.Mem} (h : CRep l s m) {bits : Nat} {a : Int}
    (hacc : Accepted bits a) {v : Nat} (hv : v < 2 ^ bits) :
    (s.write (polOps l) bits a v false).sys.wt = s.wt :=
  (step_agrees (P := polOps l) h.polOK (CRep.toRepr h) (.write bits a v)
    ⟨(accepted_split hacc).1, hv⟩).2.2.1

theorem MRelT.read {w : Bool} {mc mf : MemSys} (h : MRelT w mc mf) {bits : Nat} {a : Int}
    (hacc : Accepted bits a) (c : Bool) : MRelT w (mc.read bits a c).mem mf := by
  obtain ⟨l, s, m, rfl, rfl, hr, ht, hw⟩ := h
  obtain ⟨v, _, _, h3⟩ := hr.read hacc c
  exact ⟨l, _, m, rfl, rfl, h3, TRep.read hr ht hacc c, (read_wt hr hacc c).trans hw⟩

theorem MRelT.write {w : Bool} {mc mf : MemSys} (h : MRelT w mc mf) {bits : Nat} {a : Int}
    (hacc : Accepted bits a) {v : Nat} (hv : v < 2 ^ bits) :
    MRelT w (mc.write bits a v false).mem (mf.write bits a v false).mem := by
  obtain ⟨l, s, m, rfl, rfl, hr, ht, hw⟩ := h
  obtain ⟨m', _, h2, h3⟩ := hr.write hacc hv
  refine ⟨l, _, m', rfl, ?_, h3, TRep.write hr ht hacc hv m' h2, (write_wt hr hacc hv).trans hw⟩
  simp only [MemSys.write, h2]

end ArchSim.Lemmas.C12Prog
