/-
C04 (spelling independence, part 2), variable operands 3: `pInstrBody` on load-by-name lines.
-/
import ArchSim.Lemmas.C04SpellVar2

namespace ArchSim.Lemmas.C04Spell
open ArchSim ArchSim.PP ArchSim.Rv ArchSim.Asm ArchSim.Lemmas.C14

theorem allWs_head_ne (tr : List Char) (htr : AllWs tr) (d : Char) (hd : isWs d = false) : tr.head? ≠ some d := by
  cases tr with
  | nil => simp
  | cons c r =>
    have := htr c (by simp)
    simp only [List.head?_cons, ne_eq, Option.some.injEq]
    rintro rfl; rw [hd] at this; cases this

theorem pComma_allWs (tr : List Char) (htr : AllWs tr) : pComma tr = .fail := by
  simp [pComma, lit, skipWs_allWs tr htr, stripPrefix]

/-- after the variable of a load-by-name line: the index text and the trailing blanks -/
theorem idx_rest_facts (ix : IdxSp) (tr : List Char) (htr : AllWs tr) :
    TokEnd (idxTxt ix ++ tr) ∧ (∀ c ∈ (skipWs (idxTxt ix ++ tr)).head?, isNum c = false) ∧
      pComma (idxTxt ix ++ tr) = .fail := by
  cases ix with
  | none =>
    refine ⟨tokEnd_allWs tr htr, ?_, pComma_allWs tr htr⟩
    simp [idxTxt, skipWs_allWs tr htr]
  | some ds =>
    refine ⟨tokEnd_cons '[' _ (by decide), ?_, pComma_fail_head '[' _ (by decide) (by decide)⟩
    intro c hc
    simp only [idxTxt, List.cons_append, skipWs_cons_of_not_ws '[' _ (by decide), List.head?_cons,
      Option.mem_def, Option.some.injEq] at hc
    subst hc; decide

section
variable (g w1 w2 tr : List Char) (hg : AllWs g) (hgne : g ≠ []) (h1 : AllWs w1) (h2 : AllWs w2) (htr : AllWs tr)
include hg hgne h1 h2 htr

/-- `l<x> rd, name` / `l<x> rd, name[i]`: the load-by-variable-name alternative wins, whatever the name is. -/
theorem bodyS_loadVar (op : Op) (h : cls op = .load) (a : Nat) (ha : a < 32) (s1 : RegStyle) (name : List Char)
    (hl : IsLabel name) (ix : IdxSp) (hi : IdxOk ix) :
    pInstrBody (mn op ++ tReg g s1 a (tSep w1 ',' (tVar w2 name ix tr)))
      = .ok (.grp (.memPseudo op.mnemonic a (String.ofList name) (idxVal ix))) tr := by
  have hr := mnSep_tReg g s1 a (tSep w1 ',' (tVar w2 name ix tr)) hg hgne
  obtain ⟨f1, f2, f3⟩ := idx_rest_facts ix tr htr
  have h4 := stage_exact L4 low_4 op (ex4 op (Or.inl h)) _ hr
  rw [L4] at h4
  have hP : pMemPseudo (mn op ++ tReg g s1 a (tSep w1 ',' (tVar w2 name ix tr)))
      = .ok (.memPseudo op.mnemonic a (String.ofList name) (idxVal ix)) tr := by
    simp only [pMemPseudo, h4, bind_ok, pReg_tReg g s1 a _ hg ha (tokEnd_tSep w1 ',' _ h1 comma_nlb),
      pComma_tSep w1 _ h1,
      pVariable_tVar w2 name ix tr h2 hl hi (tokEnd_allWs tr htr) (allWs_head_ne tr htr '[' (by decide)), map_ok]
  have h3 := stage_exact L3 low_3 op (ex3 op (Or.inl h)) _ hr
  rw [L3] at h3
  have hImm : pImm (tVar w2 name ix tr) = .fail := pImm_fail_tLab w2 name _ h2 hl
  have hM : pMemory (mn op ++ tReg g s1 a (tSep w1 ',' (tVar w2 name ix tr))) = .fail := by
    simp only [pMemory, h3, bind_ok, pReg_tReg g s1 a _ hg ha (tokEnd_tSep w1 ',' _ h1 comma_nlb),
      pComma_tSep w1 _ h1, hImm, bind_fail]
  have h8 := stage_exact L8 low_8 op (ex8 op (by simp [h])) _ hr
  rw [L8] at h8
  have hRR : (pReg (tVar w2 name ix tr)).bind (fun b r3 => (pComma r3).bind fun _ r4 =>
      (pImm r4).map fun imm => PInstr.rri op.mnemonic a b imm) = .fail :=
    reg_on_label_fail w2 name _ h2 hl f1 f2
      (fun b r3 => (pComma r3).bind fun _ r4 => (pImm r4).map fun imm => PInstr.rri op.mnemonic a b imm)
      (fun n r hc => by simp only [hc, bind_fail]) (fun n => by simp only [f3, bind_fail])
  have hI : pRegRegImm (mn op ++ tReg g s1 a (tSep w1 ',' (tVar w2 name ix tr))) = .fail := by
    simp only [pRegRegImm, h8, bind_ok, pReg_tReg g s1 a _ hg ha (tokEnd_tSep w1 ',' _ h1 comma_nlb),
      pComma_tSep w1 _ h1, hRR]
  rw [pInstrBody_eq]
  simp only [alts, List.map_cons, List.map_nil, hP, hM, hI,
    pRType_failS op _ hr (by rw [h]; decide),
    pUType_failS op _ hr (by rw [h]; decide), pBType_failS op _ hr (by rw [h]; decide),
    pSPseudo_failS op _ hr (by rw [h]; decide), pCsr_failS op _ hr (by rw [h]; decide),
    pCsri_failS op _ hr (by rw [h]; decide),
    pFence_failS op _ hr (by rw [h]; decide), pJal_failS op _ hr (by rw [h]; decide) (by rw [h]; decide),
    pEnv_failS op _ hr (by rw [h]; decide) (by rw [h]; decide), pNop_failS op _ hr, pLi_failS op _ hr,
    pMv_failS op _ hr, map_ok, map_fail]
  rfl

end

end ArchSim.Lemmas.C04Spell
