/-
C01 helper lemmas, part 4: stores.  The flat memory's multi-cell write (`writeNFrom`) corresponds, cell
by cell, to the reference semantics' sequential `storeByte`s.
-/
import ArchSim.Lemmas.C01Load
namespace ArchSim.Lemmas.C01
open ArchSim ArchSim.Rv ArchSim.Spec.RvSpec ArchSim.Mem ArchSim.Cache

theorem writeCell_riscv (m : Mem) (hc : m.cfg = riscvCfg) (A : Int) (v : Nat) :
    writeCell m A v = if 16384 ≤ A % 4294967296 then
        .ok { m with cells := fun x => if x = A % 4294967296 then v else m.cells x,
                     keys := if A % 4294967296 ∈ m.keys then m.keys else m.keys ++ [A % 4294967296] }
      else .error ⟨A % 4294967296⟩ := by
  simp only [writeCell, hc, C18.riscv_wrap, C18.riscv_inRange]
  have : A % 4294967296 < 4294967296 := by omega
  by_cases h : 16384 ≤ A % 4294967296 <;> simp [h, this]

/-- Abstraction of the result of one cell write. -/
def αWC (s : St) : Except AddrErr Mem → Except SpecFault SpecSt
  | .ok m' => .ok (α { s with mem := .flat m' })
  | .error e => .error (.access (BitVec.ofInt 32 e.address))

theorem word_eq_iff (w : Word) (B : Int) (hB : 0 ≤ B ∧ B < 4294967296) :
    w = BitVec.ofInt 32 B ↔ (w.toNat : Int) = B := by
  constructor
  · rintro rfl; simp only [BitVec.toNat_ofInt]; omega
  · intro h; apply BitVec.eq_of_toNat_eq; simp only [BitVec.toNat_ofInt]; omega

theorem storeByte_step (s : St) (m : Mem) (hc : m.cfg = riscvCfg) (A : Int) (k v : Nat) :
    (α { s with mem := .flat m }).storeByte (BitVec.ofInt 32 A + BitVec.ofNat 32 k) (BitVec.ofNat 8 v) =
      αWC s (writeCell m (A + k) (v % 256)) := by
  have h1 := addr_toNat A k
  simp only [SpecSt.storeByte, mapped, dataBase, writeCell_riscv m hc]
  by_cases h : 16384 ≤ (A + (k : Int)) % 4294967296
  · have : 16384 ≤ (BitVec.ofInt 32 A + BitVec.ofNat 32 k).toNat := by omega
    simp only [h, this, if_true, αWC, SpecSt.putByte, α]
    congr 2
    funext w
    simp only [αMem, MemSys.backing]
    rw [addr_eq]
    have hiff := word_eq_iff w ((A + (k : Int)) % 4294967296) (by omega)
    by_cases hw : (w.toNat : Int) = (A + (k : Int)) % 4294967296
    · rw [if_pos (hiff.mpr hw), if_pos hw]
      apply BitVec.eq_of_toNat_eq; simp only [BitVec.toNat_ofNat]; omega
    · rw [if_neg (fun e => hw (hiff.mp e)), if_neg hw]
  · have : ¬ 16384 ≤ (BitVec.ofInt 32 A + BitVec.ofNat 32 k).toNat := by omega
    simp only [h, this, if_false, αWC]
    rw [addr_eq]

theorem writeCell_cfg' (m m' : Mem) (A : Int) (v : Nat) (h : writeCell m A v = .ok m') : m'.cfg = m.cfg := by
  simp only [writeCell] at h
  split at h
  · cases h; rfl
  · cases h


/-- Abstract outcome of a store, given what the memory returned. -/
def storeOut (s : St) : Mem × Option AddrErr → Option (Except SpecFault SpecSt)
  | (m', none) => some (.ok { α { s with mem := .flat m' } with pc := (α s).pc + 4 })
  | (_, some e) => some (.error (.access (BitVec.ofInt 32 e.address)))

theorem write_flat (m : Mem) (hc : m.cfg = riscvCfg) (bits : Nat) (hb : 8 ≤ bits) (A : Int) (v : Nat) (d : Bool) :
    (MemSys.flat m).write bits A v d =
      match writeN m A (bits / 8) v with
      | (m', some e) => { mem := .flat m', res := .error (.addr e.address), extra := 0 }
      | (m', none) => { mem := .flat m', res := .ok 0, extra := 0 } := by
  simp only [MemSys.write, Mem.write, hc, cellsOf, riscvCfg]
  rw [if_neg (by omega)]
  rcases writeN m A (bits / 8) v with ⟨m', _ | e⟩ <;> rfl

theorem execOne_store (i : Instr) (s : St) (m : Mem) (hm : s.mem = .flat m) (hc : m.cfg = riscvCfg)
    (hty : i.op.ty = .s) :
    αBeh (execOne i s) = storeOut s
      (writeN m (((s.regs i.rs1 + wrapU i.imm) % 4294967296 : Nat) : Int) (accessBits i.op / 8)
        (s.regs i.rs2 % 2 ^ accessBits i.op)) := by
  have hb8 : 8 ≤ accessBits i.op := by
    simp only [accessBits]; split <;> omega
  simp only [execOne, behavior, hty, hm, write_flat m hc _ hb8]
  rcases writeN m (((s.regs i.rs1 + wrapU i.imm) % 4294967296 : Nat) : Int) (accessBits i.op / 8)
        (s.regs i.rs2 % 2 ^ accessBits i.op) with ⟨m', _ | e⟩
  · simp only [αBeh, αOut, storeOut, α, pc_next]
  · simp only [αBeh, αOut, storeOut, αFault, Option.map]

theorem addr_store (a : Nat) (imm : Int) :
    W a + BitVec.ofInt 32 imm = BitVec.ofInt 32 (((a + wrapU imm) % 4294967296 : Nat) : Int) := by
  apply BitVec.eq_of_toNat_eq
  simp only [BitVec.toNat_add, BitVec.toNat_ofInt, BitVec.toNat_ofNat, wrapU]
  omega

theorem α_mem_self (s : St) (m : Mem) (hm : s.mem = .flat m) : α { s with mem := .flat m } = α s := by
  simp only [α, hm]

/-- Sequential byte stores at ascending addresses (proof device: `storeHalf`/`storeWord` are
    instances). -/
def storeSeq (σ : SpecSt) (a : Word) : List Byte → Except SpecFault SpecSt
  | [] => .ok σ
  | b :: bs =>
    match σ.storeByte a b with
    | .error f => .error f
    | .ok σ' => storeSeq σ' (a + 1) bs

/-- The little-endian bytes the model's `writeNFrom` stores. -/
def bytesFrom : Nat → Nat → List Byte
  | _, 0 => []
  | v, n + 1 => BitVec.ofNat 8 v :: bytesFrom (v / 256) n

/-- Abstraction of the result of a multi-cell write. -/
def αW (s : St) : Mem × Option AddrErr → Except SpecFault SpecSt
  | (m', none) => .ok (α { s with mem := .flat m' })
  | (_, some e) => .error (.access (BitVec.ofInt 32 e.address))

theorem ofNat8_mod (v : Nat) : BitVec.ofNat 8 (v % 256) = BitVec.ofNat 8 v := ofNat_mod_pow 8 v

theorem storeSeq_writeNFrom (s : St) (A : Int) (n : Nat) :
    ∀ (m : Mem) (k v : Nat), m.cfg = riscvCfg →
      storeSeq (α { s with mem := .flat m }) (BitVec.ofInt 32 A + BitVec.ofNat 32 k) (bytesFrom v n) =
        αW s (writeNFrom m A n k v) := by
  induction n with
  | zero => intro m k v _; rfl
  | succ n ih =>
    intro m k v hc
    simp only [bytesFrom, storeSeq, writeNFrom, storeByte_step s m hc, hc]
    cases h : writeCell m (A + (k : Int)) (v % 256) with
    | error e =>
      simp only [riscvCfg, Nat.reducePow, h, αWC, αW]
    | ok m' =>
      have hc' : m'.cfg = riscvCfg := by rw [writeCell_cfg' m m' _ _ h, hc]
      simp only [riscvCfg, Nat.reducePow, h, αWC]
      rw [← ih m' (k + 1) (v / 256) hc', BitVec.add_assoc]
      congr 2
      apply BitVec.eq_of_toNat_eq
      simp only [BitVec.toNat_add, BitVec.toNat_ofNat, BitVec.ofNat_eq_ofNat]
      omega

theorem storeHalf_eq (σ : SpecSt) (a v : Word) :
    σ.storeHalf a v = storeSeq σ a [byteOf v 0, byteOf v 1] := by
  simp only [SpecSt.storeHalf, storeSeq, bind, Except.bind]
  cases σ.storeByte a (byteOf v 0) with
  | error f => rfl
  | ok σ1 => simp only []; cases σ1.storeByte (a + 1) (byteOf v 1) <;> rfl

theorem storeWord_eq (σ : SpecSt) (a v : Word) :
    σ.storeWord a v = storeSeq σ a [byteOf v 0, byteOf v 1, byteOf v 2, byteOf v 3] := by
  simp only [SpecSt.storeWord, storeSeq, bind, Except.bind]
  cases σ.storeByte a (byteOf v 0) with
  | error f => rfl
  | ok σ1 =>
    simp only []
    cases σ1.storeByte (a + 1) (byteOf v 1) with
    | error f => rfl
    | ok σ2 =>
      simp only []
      rw [show a + 1 + 1 = a + 2 by rw [BitVec.add_assoc]; rfl]
      cases σ2.storeByte (a + 2) (byteOf v 2) with
      | error f => rfl
      | ok σ3 =>
        simp only []
        rw [show a + 2 + 1 = a + 3 by rw [BitVec.add_assoc]; rfl]
        cases σ3.storeByte (a + 3) (byteOf v 3) <;> rfl


theorem ofNat8_eq (x y : Nat) (h : x % 256 = y % 256) : BitVec.ofNat 8 x = BitVec.ofNat 8 y := by
  apply BitVec.eq_of_toNat_eq; simp only [BitVec.toNat_ofNat]; omega

theorem bytes_byte (b : Nat) : [byteOf (W b) 0] = bytesFrom (b % 2 ^ 8) 1 := by
  simp only [bytesFrom, byteOf_W, List.cons.injEq, and_true]
  exact ofNat8_eq _ _ (by omega)

theorem bytes_half (b : Nat) : [byteOf (W b) 0, byteOf (W b) 1] = bytesFrom (b % 2 ^ 16) 2 := by
  simp only [bytesFrom, byteOf_W, List.cons.injEq, and_true]
  exact ⟨ofNat8_eq _ _ (by omega), ofNat8_eq _ _ (by omega)⟩

theorem bytes_word (b : Nat) :
    [byteOf (W b) 0, byteOf (W b) 1, byteOf (W b) 2, byteOf (W b) 3] = bytesFrom (b % 2 ^ 32) 4 := by
  simp only [bytesFrom, byteOf_W, List.cons.injEq, and_true]
  exact ⟨ofNat8_eq _ _ (by omega), ofNat8_eq _ _ (by omega), ofNat8_eq _ _ (by omega),
    ofNat8_eq _ _ (by omega)⟩

theorem storeSeq_writeN (s : St) (m : Mem) (hm : s.mem = .flat m) (hc : m.cfg = riscvCfg) (A : Int)
    (n v : Nat) : storeSeq (α s) (BitVec.ofInt 32 A) (bytesFrom v n) = αW s (writeN m A n v) := by
  have := storeSeq_writeNFrom s A n m 0 v hc
  rw [show BitVec.ofInt 32 A + BitVec.ofNat 32 0 = BitVec.ofInt 32 A from BitVec.add_zero _,
    α_mem_self s m hm] at this
  exact this

theorem store_finish (s : St) (r : Mem × Option AddrErr) :
    storeOut s r = some (match αW s r with
      | .error f => .error f
      | .ok s' => .ok { s' with pc := (α s).pc + 4 }) := by
  rcases r with ⟨m', _ | e⟩ <;> rfl

theorem exec_sb (i : Instr) (s : St) (hi : InstrWF i) (hs : StOK s) (hop : i.op = .sb) :
    αBeh (execOne i s) = some (exec i (α s)) := by
  obtain ⟨m, hm, hc, hw⟩ := hs.flat
  have himm : -2048 ≤ i.imm ∧ i.imm < 2048 := by have := hi.imm; rw [hop] at this; exact this
  rw [execOne_store i s m hm hc (by rw [hop]; rfl), hop, store_finish,
    ← storeSeq_writeN s m hm hc, ← addr_store]
  simp only [exec, hop, α_get s hs _ hi.rs1, α_get s hs _ hi.rs2, immI_eq i himm, accessBits,
    Nat.reduceDiv, ← bytes_byte, storeSeq, bind, Except.bind, pure, Except.pure]
  cases (α s).storeByte (W (s.regs i.rs1) + BitVec.ofInt 32 i.imm) (byteOf (W (s.regs i.rs2)) 0) <;> rfl

theorem exec_sh (i : Instr) (s : St) (hi : InstrWF i) (hs : StOK s) (hop : i.op = .sh) :
    αBeh (execOne i s) = some (exec i (α s)) := by
  obtain ⟨m, hm, hc, hw⟩ := hs.flat
  have himm : -2048 ≤ i.imm ∧ i.imm < 2048 := by have := hi.imm; rw [hop] at this; exact this
  rw [execOne_store i s m hm hc (by rw [hop]; rfl), hop, store_finish,
    ← storeSeq_writeN s m hm hc, ← addr_store]
  simp only [exec, hop, α_get s hs _ hi.rs1, α_get s hs _ hi.rs2, immI_eq i himm, accessBits,
    Nat.reduceDiv, ← bytes_half, ← storeHalf_eq, bind, Except.bind, pure, Except.pure]
  cases (α s).storeHalf (W (s.regs i.rs1) + BitVec.ofInt 32 i.imm) (W (s.regs i.rs2)) <;> rfl

theorem exec_sw (i : Instr) (s : St) (hi : InstrWF i) (hs : StOK s) (hop : i.op = .sw) :
    αBeh (execOne i s) = some (exec i (α s)) := by
  obtain ⟨m, hm, hc, hw⟩ := hs.flat
  have himm : -2048 ≤ i.imm ∧ i.imm < 2048 := by have := hi.imm; rw [hop] at this; exact this
  rw [execOne_store i s m hm hc (by rw [hop]; rfl), hop, store_finish,
    ← storeSeq_writeN s m hm hc, ← addr_store]
  simp only [exec, hop, α_get s hs _ hi.rs1, α_get s hs _ hi.rs2, immI_eq i himm, accessBits,
    Nat.reduceDiv, ← bytes_word, ← storeWord_eq, bind, Except.bind, pure, Except.pure]
  cases (α s).storeWord (W (s.regs i.rs1) + BitVec.ofInt 32 i.imm) (W (s.regs i.rs2)) <;> rfl

end ArchSim.Lemmas.C01
