/-
C12 (memory table, program level), part 3: WRITE-THROUGH.  The backing memory of a write-through
system is, as a structure (cells AND key order), the flat reference memory fed the same history:
reads and block fills never write to the backing memory, a rejected write leaves it untouched, an
accepted write performs exactly the flat `Mem.write`.
-/
import ArchSim.Lemmas.C12ProgTable

namespace ArchSim.Lemmas.C12Prog
open ArchSim ArchSim.Cache ArchSim.Mem ArchSim.Spec.ByteStore ArchSim.Lemmas.C18 ArchSim.Spec.CacheAbs
open ArchSim.Lemmas.C03 ArchSim.Lemmas.C12

variable {σ : Type} {P : PolicyOps σ} {WFp : σ → Prop}

/-- Under write-through a block fetch (hit, or miss with fill and eviction) never touches the backing
    memory. -/
theorem readBlockSys_mem_wt (s : DSys σ) (hwt : s.wt = true) (d : DAddr) :
    (s.readBlockSys P d).1.mem = s.mem := by
  unfold DSys.readBlockSys
  split
  · rfl
  · rfl
  · split
    · rfl
    · split
      · rfl
      · simp only [hwt, if_true]

/-- Under write-through a read (any width, any address, accepted or rejected) never touches the
    backing memory. -/
theorem read_mem_wt (s : DSys σ) (hwt : s.wt = true) (bits : Nat) (addr : Int) (counted : Bool) :
    (s.read P bits addr counted).sys.mem = s.mem := by
  have h := readBlockSys_mem_wt (P := P) s hwt (decode s.geo.idxBits s.geo.blkBits addr)
  unfold DSys.read
  simp only
  rcases hr : s.readBlockSys P (decode s.geo.idxBits s.geo.blkBits addr) with ⟨s1, r⟩
  rw [hr] at h
  cases r with
  | error e => exact h
  | ok p =>
    obtain ⟨vals, hit⟩ := p
    cases counted <;> exact h

theorem laneErr_of_intoBlock_ok {bits : Nat} {d : DAddr} {block : List Nat} {v : Nat} {b' : List Nat}
    (h : intoBlock bits d block v = .ok b') : laneErr bits d = none := by
  unfold intoBlock at h
  unfold laneErr
  by_cases h8 : bits = 8
  · rw [if_pos h8]
  · rw [if_neg h8] at h ⊢
    by_cases h16 : bits = 16
    · rw [if_pos h16] at h ⊢
      by_cases ho : d.byteOff > 2
      · rw [if_pos ho] at h; cases h
      · rw [if_neg ho]
    · rw [if_neg h16] at h ⊢
      by_cases ho : d.byteOff ≠ 0
      · rw [if_pos ho] at h; cases h
      · rw [if_neg ho]

/-- What a write-through write does to the backing memory, with no assumption on the state: either
    it is rejected before the lower memory is touched, or it passes the lane check and ends with the
    store `wtStore` into the unchanged backing memory. -/
theorem writeWT_mem_cases (s : DSys σ) (bits : Nat) (addr : Int) (v : Nat) :
    ((s.writeWT P bits addr v).sys.mem = s.mem ∧ ∃ e, (s.writeWT P bits addr v).res = .error e) ∨
    (laneErr bits (dec s addr) = none ∧
      ∃ s2 extra, s2.mem = s.mem ∧ s.writeWT P bits addr v = wtStore s2 bits addr v extra) := by
  cases hrb : readBlock P s.sets (dec s addr) with
  | error e =>
    left
    have : s.writeWT P bits addr v = { sys := s, res := .error e, extra := 0 } := by
      unfold DSys.writeWT
      simp only [hrb]
    rw [this]
    exact ⟨rfl, e, rfl⟩
  | ok r =>
    obtain ⟨sets1, cached⟩ := r
    cases cached with
    | none =>
      rw [writeWT_miss s bits addr v sets1 hrb]
      cases hl : laneErr bits (dec s addr) with
      | some e => left; exact ⟨rfl, e, rfl⟩
      | none => right; exact ⟨rfl, wtCount s sets1 false, s.penalty, rfl, rfl⟩
    | some block =>
      rw [writeWT_hit s bits addr v sets1 block hrb]
      cases hi : intoBlock bits (dec s addr) block v with
      | error e => left; exact ⟨rfl, e, rfl⟩
      | ok block' =>
        simp only
        cases hw : writeBlock P sets1 (dec s addr) block' with
        | error e => left; exact ⟨rfl, e, rfl⟩
        | ok r2 =>
          obtain ⟨sets2, h2, d2⟩ := r2
          right
          exact ⟨laneErr_of_intoBlock_ok hi, { wtCount s sets1 true with sets := sets2 }, 0, rfl, rfl⟩

theorem wtStore_mem_ok (s2 : DSys σ) (bits : Nat) (addr : Int) (v extra : Nat) (m' : Mem)
    (e : Option AddrErr) (h : Mem.write s2.mem bits addr v = some (m', e)) :
    (wtStore s2 bits addr v extra).sys.mem = m' := by
  unfold wtStore
  rw [h]
  cases e <;> rfl

/-- An accepted write-through write performs exactly the flat write on the backing memory. -/
theorem writeWT_mem_accepted {s : DSys σ} (hP : PolicyOK P s.geo.assoc WFp) (hs : CInv WFp s)
    (hwt : s.wt = true) (bits : Nat) (addr : Int) (v : Nat) (hb : widthOK bits)
    (hw : inWord bits addr) (hin : inData addr) (hv : v < 2 ^ bits) (m' : Mem)
    (hm' : Mem.write s.mem bits addr v = some (m', none)) :
    (s.writeWT P bits addr v).sys.mem = m' := by
  have hres := (writeWT_accepted hP hs hwt bits addr v hb hw hin hv).1
  rcases writeWT_mem_cases (P := P) s bits addr v with ⟨_, e, he⟩ | ⟨_, s2, extra, h2, hst⟩
  · rw [hres] at he; cases he
  · rw [hst]
    exact wtStore_mem_ok s2 bits addr v extra m' none (by rw [h2]; exact hm')

/-- A rejected write-through write (crossing a word boundary, or below the data range) leaves the
    backing memory untouched — as a structure. -/
theorem writeWT_mem_rejected {s : DSys σ} (hs : CInv WFp s) (bits : Nat) (addr : Int) (v : Nat)
    (hb : widthOK bits) (hrej : ¬ (inWord bits addr ∧ inData addr)) :
    (s.writeWT P bits addr v).sys.mem = s.mem := by
  rcases writeWT_mem_cases (P := P) s bits addr v with ⟨h, _⟩ | ⟨hl, s2, extra, h2, hst⟩
  · exact h
  · have hw : inWord bits addr := by
      apply Classical.byContradiction
      intro hw
      have hoff : ¬ (dec s addr).byteOff + bits / 8 ≤ 4 := hw
      rw [laneErr_crossing bits (dec s addr) hb hoff (decode_byteOff_lt _ _ _)] at hl
      cases hl
    have hin : ¬ inData addr := fun h => hrej ⟨hw, h⟩
    rw [hst]
    have hbad := write_riscv_bad (CInvS_memOK hs.toCInvS) bits hb addr v
      (by unfold inData at hin; omega)
    exact (wtStore_mem_ok s2 bits addr v extra s.mem _ (by rw [h2]; exact hbad))

/-- One operation of a history under write-through: the backing memory afterwards is the flat
    reference step applied to the backing memory before. -/
theorem wt_step_mem {s : DSys σ} (hP : PolicyOK P s.geo.assoc WFp) (hs : CInv WFp s)
    (hwt : s.wt = true) (o : Spec.CacheAbs.Op) (ho : o.wf) :
    (stepOp P s o).sys.mem = (flatStep s.mem o).1 := by
  cases o with
  | read bits addr counted =>
    have : (flatStep s.mem (.read bits addr counted)).1 = s.mem := by
      unfold flatStep; split <;> rfl
    rw [this]
    exact read_mem_wt s hwt bits addr counted
  | write bits addr v =>
    obtain ⟨hb, hv⟩ : widthOK bits ∧ v < 2 ^ bits := ho
    have hst : stepOp P s (.write bits addr v) = s.writeWT P bits addr v := by
      unfold stepOp DSys.write
      simp only [Bool.false_eq_true, if_false, hwt, if_true]
    rw [hst]
    by_cases hacc : (Spec.CacheAbs.Op.write bits addr v).accepted
    · have hacc' : inWord bits addr ∧ inData addr := hacc
      obtain ⟨hw, hin⟩ := hacc'
      have hx := wrap32_lt addr
      have hw' : wrap32 addr % 4 + bits / 8 ≤ 4 := hw
      obtain ⟨m', hwr, _⟩ := write_riscv (CInvS_memOK hs.toCInvS) bits hb addr v hin (by omega)
      have : (flatStep s.mem (.write bits addr v)).1 = m' := by
        unfold flatStep; rw [if_pos hacc]; simp only [hwr]
      rw [this]
      exact writeWT_mem_accepted hP hs hwt bits addr v hb hw hin hv m' hwr
    · have : (flatStep s.mem (.write bits addr v)).1 = s.mem := by
        unfold flatStep; rw [if_neg hacc]
      rw [this]
      exact writeWT_mem_rejected hs bits addr v hb hacc

/-- Histories under write-through: the backing memory of the cached system is, as a structure, the
    flat reference memory fed the same history (starting from the backing memory). -/
theorem wt_history_mem {s : DSys σ} (hP : PolicyOK P s.geo.assoc WFp) (hs : CInv WFp s)
    (hwt : s.wt = true) (ops : List Spec.CacheAbs.Op) (ho : ∀ o, o ∈ ops → o.wf) :
    (runOps P s ops).1.mem = (flatOps s.mem ops).1 := by
  induction ops generalizing s with
  | nil => rfl
  | cons o os ih =>
    have how := ho o (by simp)
    have hr : Repr WFp s s.mem := ⟨hs, CInvS_memOK hs.toCInvS, hs.wtc hwt⟩
    obtain ⟨⟨h1, _, _⟩, h2, h3, _⟩ := step_agrees hP hr o how
    have hm := wt_step_mem hP hs hwt o how
    have := ih (s := (stepOp P s o).sys) (by rw [h2]; exact hP) h1 (h3.trans hwt)
      (fun o' ho' => ho o' (by simp [ho']))
    show (runOps P (stepOp P s o).sys os).1.mem = (flatOps (flatStep s.mem o).1 os).1
    rw [this, hm]

end ArchSim.Lemmas.C12Prog
