/-
C04 (spelling independence), part 20: the spellings of an instruction line (`Spelling`, `render`) and the
token every one of them is read as (`itemOf`).
-/
import ArchSim.Lemmas.C04SpellBody2

namespace ArchSim.Lemmas.C04Spell
open ArchSim ArchSim.PP ArchSim.Rv ArchSim.Asm ArchSim.Lemmas.C14

/-- a run of blanks: `false` = space, `true` = tab -/
def blanks (b : List Bool) : List Char := b.map (fun t => if t then '\t' else ' ')

theorem allWs_blanks (b : List Bool) : AllWs (blanks b) := by
  intro c hc
  simp only [blanks, List.mem_map] at hc
  obtain ⟨t, _, rfl⟩ := hc
  cases t <;> decide

/-- How a line is written. The default value of every field is the choice the printer `Instr.repr` makes. -/
structure Spelling where
  /-- blanks at the start of the line -/
  lead : List Bool := []
  /-- letter `k` of the mnemonic is upper case -/
  mnCase : Nat → Bool := fun _ => false
  /-- the blank after the mnemonic is a tab -/
  gapTab : Bool := false
  /-- further blanks after it -/
  gap : List Bool := []
  /-- spelling of the first, second, third register operand -/
  r1 : RegStyle := .x
  r2 : RegStyle := .x
  r3 : RegStyle := .x
  /-- spelling of the csr number -/
  csrNum : NumStyle := .hex 0 (fun _ => false)
  /-- spelling of the immediate -/
  imm : NumStyle := .dec
  /-- blanks before / after the first comma -/
  c1a : List Bool := []
  c1b : List Bool := [false]
  /-- blanks before / after the second comma -/
  c2a : List Bool := []
  c2b : List Bool := [false]
  /-- blanks before `(`, after `(`, before `)` -/
  pa : List Bool := []
  pb : List Bool := []
  pc : List Bool := []
  /-- blanks at the end of the line -/
  trail : List Bool := []

def gapOf (sp : Spelling) : List Char := (if sp.gapTab then '\t' else ' ') :: blanks sp.gap

theorem allWs_gapOf (sp : Spelling) : AllWs (gapOf sp) := by
  intro c hc
  rcases List.mem_cons.mp hc with rfl | hc
  · cases sp.gapTab <;> decide
  · exact allWs_blanks _ c hc

theorem gapOf_ne_nil (sp : Spelling) : gapOf sp ≠ [] := by simp [gapOf]

/-- the operands of `i` (after the mnemonic) in the spelling `sp`, followed by `tr` -/
def operands (sp : Spelling) (i : Instr) (tr : List Char) : List Char :=
  let g := gapOf sp
  let c1 (r : List Char) := tSep (blanks sp.c1a) ',' r
  let c2 (r : List Char) := tSep (blanks sp.c2a) ',' r
  let w1 := blanks sp.c1b
  let w2 := blanks sp.c2b
  let paren (b : Nat) := tSep (blanks sp.pa) '(' (tReg (blanks sp.pb) sp.r2 b (tSep (blanks sp.pc) ')' tr))
  match cls i.op with
  | .r => tReg g sp.r1 i.rd (c1 (tReg w1 sp.r2 i.rs1 (c2 (tReg w2 sp.r3 i.rs2 tr))))
  | .imm3 | .jalr => tReg g sp.r1 i.rd (c1 (tReg w1 sp.r2 i.rs1 (c2 (tNum w2 sp.imm i.imm tr))))
  | .load => tReg g sp.r1 i.rd (c1 (tNum w1 sp.imm i.imm (paren i.rs1)))
  | .store => tReg g sp.r1 i.rs2 (c1 (tNum w1 sp.imm i.imm (paren i.rs1)))
  | .b => tReg g sp.r1 i.rs1 (c1 (tReg w1 sp.r2 i.rs2 (c2 (tNum w2 sp.imm i.imm tr))))
  | .u => tReg g sp.r1 i.rd (c1 (tNum w1 sp.imm i.imm tr))
  | .jal => tReg g sp.r1 i.rd (c1 (tNum w1 sp.imm i.aux tr))
  | .csr => tReg g sp.r1 i.rd (c1 (tNum w1 sp.csrNum i.aux (c2 (tReg w2 sp.r2 i.rs1 tr))))
  | .csri => tReg g sp.r1 i.rd (c1 (tNum w1 sp.csrNum i.aux (c2 (tNum w2 sp.imm i.imm tr))))
  | .ecall | .ebreak | .fence => tr

/-- the line for instruction `i` in the spelling `sp` -/
def render (sp : Spelling) (i : Instr) : List Char :=
  blanks sp.lead ++ (recase sp.mnCase (mn i.op) ++ operands sp i (blanks sp.trail))

/-- the token item every spelling of `i` is read as -/
def itemOf (i : Instr) : Item :=
  match cls i.op with
  | .r => .grp (.rtype i.op.mnemonic i.rd i.rs1 i.rs2)
  | .imm3 | .jalr => .grp (.rri i.op.mnemonic i.rd i.rs1 i.imm)
  | .load => .grp (.mem i.op.mnemonic i.rd i.imm i.rs1)
  | .store => .grp (.mem i.op.mnemonic i.rs2 i.imm i.rs1)
  | .b => .grp (.rri i.op.mnemonic i.rs1 i.rs2 i.imm)
  | .u => .grp (.utype i.op.mnemonic i.rd i.imm)
  | .jal => .grp (.jalImm i.rd i.aux)
  | .csr => .grp (.csr i.op.mnemonic i.rd i.aux i.rs1)
  | .csri => .grp (.csri i.op.mnemonic i.rd i.aux i.imm)
  | .ecall | .ebreak => .str i.op.mnemonic
  | .fence => .grp (.fence 0 0)

/-- what the spelling theorem needs of an instruction: register numbers below 32, numbers of at most 4300
    decimal digits, not `fence` (which the printer writes without operands) -/
def Spellable (i : Instr) : Prop :=
  i.rd < 32 ∧ i.rs1 < 32 ∧ i.rs2 < 32 ∧ i.imm.natAbs < 10 ^ 4300 ∧ i.aux.natAbs < 10 ^ 4300 ∧ i.op ≠ .fence

end ArchSim.Lemmas.C04Spell
