/-
TOY assembler, `load` on tokenised programs: `loadToks` (the part of `load` after tokenising),
what a successful run looked like, and the resulting state as a `Toy.loadImage`.
-/
import ArchSim.Lemmas.ToyAsmData
import ArchSim.Lemmas.ToyLoad

namespace ArchSim.ToyAsm
open ArchSim ArchSim.PP ArchSim.Toy

/-- The `DataOut` record `load` starts the data pass with. -/
def dataInit (ls : Labels) : DataOut :=
  { mem := Mem.Mem.empty Mem.toyCfg, labels := ls, last := 4095, err := none }

/-- `load` after `tokenize ∘ sanitize` succeeded (same text as the model's `load`). -/
def loadToks (t : Toy.TSim) (toks : List Entry) : Toy.TSim × Option AsmErr :=
  let fresh : Toy.TSt := {}
  let t0 := { t with s := fresh }
  match segment toks with
  | .error e => (t0, some e)
  | .ok (data, text') =>
    match processLabels toks [] 0 with
    | .error e => (t0, some e)
    | .ok ls =>
      let d := writeData data { mem := fresh.mem, labels := ls, last := 4095, err := none }
      let t1 := { t0 with s := { fresh with mem := d.mem } }
      match d.err with
      | some e => (t1, some e)
      | none =>
        match buildInstrs text' d.labels with
        | .error e => (t1, some e)
        | .ok is =>
          if (is.length : Int) - 1 > d.last then (t1, some (.memSize 4096))
          else
            let m := writeInstrs d.mem 0 is
            let s : Toy.TSt := { fresh with mem := m, maxPc := some ((is.length : Int) - 1) }
            let s' := match is with
              | [] => s
              | i :: _ => { s with loaded := some i, vis := { pcOld := some 0, ramOut := some (Toy.encode i % 65536) } }
            ({ t0 with s := s' }, none)

/-- `load` = tokenise, then `loadToks`. -/
theorem load_eq_loadToks (t : Toy.TSim) (text : String) :
    load t text =
      match tokenize (sanitize text) with
      | .error e => ({ t with s := {} }, some e)
      | .ok toks => loadToks t toks := by
  unfold load loadToks
  cases tokenize (sanitize text) <;> rfl

/-! ### the pieces of a tokenised program (total versions of the passes) -/

def segData (toks : List Entry) : List Entry :=
  match segment toks with
  | .ok (d, _) => d
  | .error _ => []

def segText (toks : List Entry) : List Entry :=
  match segment toks with
  | .ok (_, x) => x
  | .error _ => []

/-- the label table after `processLabels` (code labels only) -/
def codeLabels (toks : List Entry) : Labels :=
  match processLabels toks [] 0 with
  | .ok ls => ls
  | .error _ => []

/-- result of the data pass -/
def dataOut (toks : List Entry) : DataOut := writeData (segData toks) (dataInit (codeLabels toks))

/-- the final label table (code labels, then variables) -/
def allLabels (toks : List Entry) : Labels := (dataOut toks).labels

/-- the instruction objects of the text segment -/
def instrsOf (toks : List Entry) : List TInstr :=
  match buildInstrs (segText toks) (allLabels toks) with
  | .ok is => is
  | .error _ => []

/-! ### data words as `(address, value)` pairs -/

def valWords (a : Nat) : List String → List (Nat × Nat)
  | [] => []
  | v :: vs => (a, valueToInt v) :: valWords (a + 1) vs

def dataWords (last : Int) : List Entry → List (Nat × Nat)
  | [] => []
  | e :: rest =>
    valWords (last - stmtSize e.2.2 + 1).toNat
        (match e.2.2 with | .varDecl _ vals => vals | _ => []) ++
      dataWords (last - stmtSize e.2.2) rest

theorem writeVals_eq_foldl (vals : List String) (m : Mem.Mem) (a : Int) (h0 : 0 ≤ a) :
    writeVals m a vals = (valWords a.toNat vals).foldl dataStep m := by
  induction vals generalizing m a with
  | nil => rfl
  | cons v vs ih =>
    simp only [writeVals, valWords, List.foldl_cons]
    rw [ih _ (a + 1) (by omega)]
    have : (a + 1).toNat = a.toNat + 1 := by omega
    rw [this]
    congr 1
    simp only [dataStep, Int.toNat_of_nonneg h0]

theorem writeData_mem_eq_foldl (data : List Entry) (o : DataOut) (h : (writeData data o).err = none) :
    (writeData data o).mem = (dataWords o.last data).foldl dataStep o.mem := by
  induction data generalizing o with
  | nil => rfl
  | cons e rest ih =>
    obtain ⟨name, vals, hs, hfit, hnew, heq⟩ := writeData_cons_ok e rest o h
    rw [heq] at h ⊢
    rw [ih _ h]
    simp only [dataWords, hs, stmtSize, List.foldl_append]
    rw [writeVals_eq_foldl _ _ _ hfit]

theorem writeInstrs_eq (is : List TInstr) (m : Mem.Mem) (k : Nat) :
    writeInstrs m k is = loadImage.writeInstrs m k is := by
  induction is generalizing m k with
  | nil => rfl
  | cons i is ih => simp only [writeInstrs, loadImage.writeInstrs, ih]

/-! ### what a successful `loadToks` looked like -/

structure LoadOk (t : Toy.TSim) (toks : List Entry) : Prop where
  seg    : segment toks = .ok (segData toks, segText toks)
  labels : processLabels toks [] 0 = .ok (codeLabels toks)
  dataOk : (dataOut toks).err = none
  build  : buildInstrs (segText toks) (allLabels toks) = .ok (instrsOf toks)
  fits   : ((instrsOf toks).length : Int) - 1 ≤ (dataOut toks).last
  image  : (loadToks t toks).1 = Toy.loadImage t (instrsOf toks) (dataWords 4095 (segData toks))

theorem loadToks_ok (t : Toy.TSim) (toks : List Entry) (h : (loadToks t toks).2 = none) :
    LoadOk t toks := by
  unfold loadToks at h
  simp only at h
  split at h
  · cases h
  · rename_i data text hseg
    split at h
    · cases h
    · rename_i ls hls
      have e1 : segData toks = data := by simp [segData, hseg]
      have e2 : segText toks = text := by simp [segText, hseg]
      have e3 : codeLabels toks = ls := by simp [codeLabels, hls]
      have e4 : dataOut toks = writeData data
          { mem := Mem.Mem.empty Mem.toyCfg, labels := ls, last := 4095, err := none } := by
        simp only [dataOut, e1, e3, dataInit]
      split at h
      · cases h
      · rename_i herr
        split at h
        · cases h
        · rename_i is his
          have e5 : instrsOf toks = is := by
            simp only [instrsOf, allLabels, e2, e4]
            rw [his]
          split at h
          · cases h
          · rename_i hfit
            refine ⟨by rw [e1, e2]; exact hseg, by rw [e3]; exact hls, by rw [e4]; exact herr, ?_, ?_, ?_⟩
            · rw [e2, e5, allLabels, e4]; exact his
            · rw [e5, e4]
              omega
            · rw [e5, e1]
              unfold loadToks
              simp only [hseg, hls]
              simp only [herr, his, if_neg hfit]
              rw [writeInstrs_eq, writeData_mem_eq_foldl _ _ herr]
              unfold loadImage
              cases is <;> rfl

/-- Conversely: if every pass succeeds, `loadToks` reports no error. -/
theorem loadToks_ok_of (t : Toy.TSim) (toks : List Entry) (data text : List Entry) (ls : Labels)
    (is : List TInstr)
    (hseg : segment toks = .ok (data, text)) (hls : processLabels toks [] 0 = .ok ls)
    (herr : (writeData data (dataInit ls)).err = none)
    (his : buildInstrs text (writeData data (dataInit ls)).labels = .ok is)
    (hfit : (is.length : Int) - 1 ≤ (writeData data (dataInit ls)).last) :
    (loadToks t toks).2 = none := by
  unfold loadToks
  simp only [hseg, hls]
  simp only [dataInit] at herr his hfit
  simp only [herr, his]
  have : ¬ ((is.length : Int) - 1 > (writeData data
      { mem := Mem.Mem.empty Mem.toyCfg, labels := ls, last := 4095, err := none }).last) := by omega
  rw [if_neg this]

end ArchSim.ToyAsm
