/-
C17 (tables) — helper lemmas, part 3: the value of a table entry is what the public accessor
`Mem.read` returns there; the RISC-V word table and the TOY table of a well-formed memory never fail.
-/
import ArchSim.Lemmas.C17ViewsData

namespace ArchSim.Lemmas.C17Views
open ArchSim ArchSim.Mem ArchSim.Views ArchSim.Spec.ByteStore ArchSim.Lemmas.C18

/-- A sorted entry `(a, v)`: `read_X(a)` returns `v` (and `v < 2^bits`). -/
theorem sortedEntries_read {m : Mem} {bits : Nat} {l : List (Int × Nat)}
    (h : sortedEntries m bits = .ok l) (hb : m.cfg.cellBits ≤ bits) (p : Int × Nat) (hp : p ∈ l) :
    Mem.read m bits p.1 = some (.ok p.2) ∧ p.2 < 2 ^ bits := by
  obtain ⟨v, hv, hpv⟩ := sortedEntries_val h p hp
  constructor
  · simp only [Mem.read, show ¬ m.cfg.cellBits > bits by omega, if_false, hv, Except.map, hpv]
  · rw [hpv]; exact Nat.mod_lt _ (Nat.two_pow_pos bits)

/-- If every table key can be read, the sorted table exists. -/
theorem sortedEntries_exists (m : Mem) (bits : Nat)
    (h : ∀ a, a ∈ reprKeys m bits → ∃ v, readN m a (cellsOf m.cfg bits) = .ok v) :
    ∃ l, sortedEntries m bits = .ok l := by
  cases hs : sortedEntries m bits with
  | ok l => exact ⟨l, rfl⟩
  | error e =>
    obtain ⟨a, ha, hr⟩ := foldr_entryStep_err m bits _ e
      (by rw [← reprEntries_eq]; exact (sortedEntries_error_iff m bits e).mp hs)
    obtain ⟨v, hv⟩ := h a ha
    rw [hv] at hr; cases hr

/-- The table fails only with the address error of the read of one of its keys. -/
theorem sortedEntries_error {m : Mem} {bits : Nat} {e : AddrErr}
    (h : sortedEntries m bits = .error e) :
    ∃ a, a ∈ reprKeys m bits ∧ readN m a (cellsOf m.cfg bits) = .error e :=
  foldr_entryStep_err m bits _ e
    (by rw [← reprEntries_eq]; exact (sortedEntries_error_iff m bits e).mp h)

/-! ### RISC-V data memory -/

/-- Every key of the word table of a well-formed RISC-V memory is a readable aligned data address. -/
theorem riscv_reprKeys_ok (m : Mem) (hc : m.cfg = riscvCfg) (hwf : WF m) (a : Int)
    (ha : a ∈ reprKeys m 32) :
    16384 ≤ a ∧ a < 4294967296 ∧ a % 4 = 0 ∧ ∀ i, i < 4 → cellOk m.cfg a i = true := by
  have hk : cellsOf m.cfg 32 = 4 := by rw [hc]; rfl
  have hmem := ha
  rw [reprKeys, reprKeysAux_mem] at hmem
  simp only [List.not_mem_nil, false_or, hk] at hmem
  obtain ⟨y, hy, rfl⟩ := hmem
  have hyr := hwf.keys_inRange y hy
  rw [hc, riscv_inRange] at hyr
  simp only [Bool.and_eq_true, decide_eq_true_eq] at hyr
  refine ⟨by omega, by omega, by omega, fun i hi => ?_⟩
  rw [hc, riscv_cellOk_iff]; omega

theorem riscv_sortedEntries_exists (m : Mem) (hc : m.cfg = riscvCfg) (hwf : WF m) :
    ∃ l, sortedEntries m 32 = .ok l := by
  apply sortedEntries_exists
  intro a ha
  have hk : cellsOf m.cfg 32 = 4 := by rw [hc]; rfl
  rw [hk]
  exact ⟨_, readN_ok m a 4 (riscv_reprKeys_ok m hc hwf a ha).2.2.2⟩

theorem leSum_zero (c : Cfg) (f : Nat → Nat) : leSum c 0 f = 0 := rfl

theorem leSum_four (c : Cfg) (hcb : c.cellBits = 8) (f : Nat → Nat) :
    leSum c 4 f = f 0 + f 1 * 256 + f 2 * 65536 + f 3 * 16777216 := by
  rw [show (4 : Nat) = 0 + 1 + 1 + 1 + 1 from rfl, leSum_succ, leSum_succ, leSum_succ, leSum_succ,
    leSum_zero, hcb]
  simp only [Nat.reduceMul, Nat.reducePow]
  omega

/-- The word shown at `a` is the little-endian composition of the four stored bytes `a … a+3`. -/
theorem riscv_sortedEntries_bytes {m : Mem} (hc : m.cfg = riscvCfg) (hwf : WF m)
    {l : List (Int × Nat)} (h : sortedEntries m 32 = .ok l) (p : Int × Nat) (hp : p ∈ l) :
    p.2 = m.cells p.1 + m.cells (p.1 + 1) * 256 + m.cells (p.1 + 2) * 65536
            + m.cells (p.1 + 3) * 16777216 := by
  have hk : cellsOf m.cfg 32 = 4 := by rw [hc]; rfl
  have hmem : p.1 ∈ reprKeys m 32 :=
    (sortedEntries_mem_fst h p.1).mp (List.mem_map_of_mem hp)
  obtain ⟨h1, h2, h3, hok⟩ := riscv_reprKeys_ok m hc hwf p.1 hmem
  obtain ⟨v, hv, hpv⟩ := sortedEntries_val h p hp
  rw [hk, readN_ok m p.1 4 hok] at hv
  cases hv
  have hlt : ∀ x, m.cells x < 256 := fun x => by
    have := hwf.cells_lt x; rw [hc] at this; exact this
  have hw0 : wrapAddr m.cfg (p.1 + ((0 : Nat) : Int)) = p.1 := by rw [hc, riscv_wrap]; omega
  have hw1 : wrapAddr m.cfg (p.1 + ((1 : Nat) : Int)) = p.1 + 1 := by rw [hc, riscv_wrap]; omega
  have hw2 : wrapAddr m.cfg (p.1 + ((2 : Nat) : Int)) = p.1 + 2 := by rw [hc, riscv_wrap]; omega
  have hw3 : wrapAddr m.cfg (p.1 + ((3 : Nat) : Int)) = p.1 + 3 := by rw [hc, riscv_wrap]; omega
  have hcb : m.cfg.cellBits = 8 := by rw [hc]; rfl
  rw [hpv, leSum_four m.cfg hcb, hw0, hw1, hw2, hw3]
  have h0 := hlt p.1; have h1' := hlt (p.1 + 1)
  have h2' := hlt (p.1 + 2); have h3' := hlt (p.1 + 3)
  clear hpv
  omega

end ArchSim.Lemmas.C17Views
