/-
C14 helper lemmas, part 4: for every printing class, the intended grammar alternative parses the
printed form completely, every other alternative fails (or leaves input), hence `pInstrBody` and
`parseLine` return the intended syntax tree.
-/
import ArchSim.Lemmas.C14Mn

namespace ArchSim.Lemmas.C14
open ArchSim ArchSim.PP ArchSim.Rv ArchSim.Asm

/-! ### operand lemmas in the shapes that occur in printed forms -/

theorem pComma_comma (r : Inp) : pComma (',' :: r) = .ok () r := by
  simp [pComma, lit, skipWs_cons_of_not_ws ',' r (by decide), stripPrefix]

theorem lit_lparen (r : Inp) : lit "(" ('(' :: r) = .ok () r := by
  simp [lit, skipWs_cons_of_not_ws '(' r (by decide), stripPrefix]

theorem lit_rparen (r : Inp) : lit ")" (')' :: r) = .ok () r := by
  simp [lit, skipWs_cons_of_not_ws ')' r (by decide), stripPrefix]

theorem pReg_regTxt_comma (n : Nat) (hn : n < 32) (r : Inp) :
    pReg (regTxt n ++ ',' :: r) = .ok n (',' :: r) :=
  pReg_regTxt n hn _ (by simp; decide)

theorem pReg_regTxt_rparen (n : Nat) (hn : n < 32) (r : Inp) :
    pReg (regTxt n ++ ')' :: r) = .ok n (')' :: r) :=
  pReg_regTxt n hn _ (by simp; decide)

theorem pReg_regTxt_nil (n : Nat) (hn : n < 32) : pReg (regTxt n) = .ok n [] := by
  have := pReg_regTxt n hn [] (by simp)
  simpa using this

theorem pImm_decTxt_nil (v : Int) (hv : v.natAbs < 10 ^ 4300) : pImm (decTxt v) = .ok v [] := by
  have := pImm_decTxt v [] hv numEnd_nil
  simpa using this

theorem pImm_decTxt_lparen (v : Int) (hv : v.natAbs < 10 ^ 4300) (r : Inp) :
    pImm (decTxt v ++ '(' :: r) = .ok v ('(' :: r) :=
  pImm_decTxt v _ hv (numEnd_lparen r)

theorem pImm_hexTxt_comma (n : Nat) (r : Inp) : pImm (hexTxt n ++ ',' :: r) = .ok (n : Int) (',' :: r) :=
  pImm_hexTxt n _ (hexEnd_comma r)

theorem pImm_fail_regTxt (n : Nat) (r : Inp) : pImm (regTxt n ++ r) = .fail := by
  simp [regTxt, pImm_fail_x]

theorem pLabel_fail_decTxt_nil (v : Int) : pLabel (decTxt v) = .fail := by
  have := pLabel_fail_decTxt v []
  simpa using this

theorem pReg_fail_decTxt_nil (v : Int) : pReg (decTxt v) = .fail := by
  have := pReg_fail_decTxt v []
  simpa using this

theorem regTxt_labelBody (n : Nat) (hn : n < 32) : ∀ c ∈ (toString n).toList, isLabelBody c = true := by
  intro c hc
  have := (reg_table n hn).2.1 c hc
  simp [isLabelBody, isAlnum, this]

/-- A register text is also a label; followed by a comma it is read as a variable name. -/
theorem pVariable_regTxt_comma (n : Nat) (hn : n < 32) (r : Inp) :
    pVariable (regTxt n ++ ',' :: r) = .ok (String.ofList (regTxt n), none) (',' :: r) := by
  have h1 : pLabel (regTxt n ++ ',' :: r) = .ok (String.ofList (regTxt n)) (',' :: r) := by
    simp only [pLabel, word, regTxt, List.cons_append, skipWs_cons_of_not_ws 'x' _ (by decide), wordAdj,
      show isLabelInit 'x' = true by decide, if_true,
      takeWhile_class isLabelBody _ (',' :: r) (regTxt_labelBody n hn) (by simp; decide),
      dropWhile_class isLabelBody _ (',' :: r) (regTxt_labelBody n hn) (by simp; decide)]
  simp [pVariable, h1, litAdj, stripPrefix]

@[simp] theorem pVariable_space (r : Inp) : pVariable (' ' :: r) = pVariable r := by simp [pVariable]

theorem pVariable_fail_decTxt (v : Int) (rest : Inp) : pVariable (decTxt v ++ rest) = .fail := by
  simp [pVariable, pLabel_fail_decTxt]

/-! ### positive chains -/

theorem chain_R (op : Op) (h : cls op = .r) (a b c : Nat) (ha : a < 32) (hb : b < 32) (hc : c < 32) :
    pRType (mn op ++ ' ' :: (regTxt a ++ ',' :: ' ' :: (regTxt b ++ ',' :: ' ' :: regTxt c)))
      = .ok (.rtype op.mnemonic a b c) [] := by
  simp only [pRType, mn_stage_exact rrrMn low_rrr op (ex0 op h) _ (wordEnd_space _), bind_ok, pReg_space,
    pReg_regTxt_comma a ha, pComma_comma, pReg_regTxt_comma b hb, pReg_regTxt_nil c hc, map_ok]

theorem chain_RRI (op : Op) (h : cls op = .imm3 ∨ cls op = .jalr ∨ cls op = .b) (a b : Nat) (v : Int)
    (ha : a < 32) (hb : b < 32) (hv : v.natAbs < 10 ^ 4300) :
    pRegRegImm (mn op ++ ' ' :: (regTxt a ++ ',' :: ' ' :: (regTxt b ++ ',' :: ' ' :: decTxt v)))
      = .ok (.rri op.mnemonic a b v) [] := by
  have h8 := mn_stage_exact L8 low_8 op
    (ex8 op (by rcases h with h | h | h <;> simp [h])) (' ' :: (regTxt a ++ ',' :: ' ' :: (regTxt b ++ ',' :: ' ' :: decTxt v)))
    (wordEnd_space _)
  rw [L8] at h8
  simp only [pRegRegImm, h8, bind_ok, pReg_space, pImm_space,
    pReg_regTxt_comma a ha, pComma_comma, pReg_regTxt_comma b hb, pImm_decTxt_nil v hv, map_ok]

theorem chain_MEM (op : Op) (h : cls op = .load ∨ cls op = .store) (a b : Nat) (v : Int)
    (ha : a < 32) (hb : b < 32) (hv : v.natAbs < 10 ^ 4300) :
    pMemory (mn op ++ ' ' :: (regTxt a ++ ',' :: ' ' :: (decTxt v ++ '(' :: (regTxt b ++ [')']))))
      = .ok (.mem op.mnemonic a v b) [] := by
  have h3 := mn_stage_exact L3 low_3 op
    (ex3 op (by rcases h with h | h <;> simp [h])) (' ' :: (regTxt a ++ ',' :: ' ' :: (decTxt v ++ '(' :: (regTxt b ++ [')']))))
    (wordEnd_space _)
  rw [L3] at h3
  simp only [pMemory, h3, bind_ok, pReg_space, pImm_space,
    pReg_regTxt_comma a ha, pComma_comma, pImm_decTxt_lparen v hv, lit_lparen, pReg_regTxt_rparen b hb,
    lit_rparen, map_ok]

theorem chain_U (op : Op) (h : cls op = .u) (a : Nat) (v : Int) (ha : a < 32) (hv : v.natAbs < 10 ^ 4300) :
    pUType (mn op ++ ' ' :: (regTxt a ++ ',' :: ' ' :: decTxt v)) = .ok (.utype op.mnemonic a v) [] := by
  simp only [pUType, mn_stage_exact uMn low_u op (ex1 op h) _ (wordEnd_space _), bind_ok, pReg_space,
    pImm_space, pReg_regTxt_comma a ha, pComma_comma, pImm_decTxt_nil v hv, map_ok]

theorem chain_J (a : Nat) (v : Int) (ha : a < 32) (hv : v.natAbs < 10 ^ 4300) :
    pJal (mn .jal ++ ' ' :: (regTxt a ++ ',' :: ' ' :: decTxt v)) = .ok (.jalImm a v) [] := by
  have hk : caselessLit "jal" (mn .jal ++ ' ' :: (regTxt a ++ ',' :: ' ' :: decTxt v))
      = .ok () (' ' :: (regTxt a ++ ',' :: ' ' :: decTxt v)) := by
    rw [kw_stage "jal" (by decide) .jal _ (wordEnd_space _)]
    rfl
  simp only [pJal, hk, bind_ok, pReg_space, pReg_regTxt_comma a ha, pComma_comma]
  refine orLongest_pick [] _ _ _ _ ?_ ?_ ?_
  · simp only [pImm_space, pImm_decTxt_nil v hv, map_ok]
  · intro q hq; cases hq
  · intro q hq
    simp only [List.mem_cons, List.mem_nil_iff, or_false] at hq
    subst hq
    simp only [pLabel_space, pLabel_fail_decTxt_nil, bind_fail, noAbort_fail]

theorem chain_CSR (op : Op) (h : cls op = .csr) (a b n : Nat) (ha : a < 32) (hb : b < 32) :
    pCsr (mn op ++ ' ' :: (regTxt a ++ ',' :: ' ' :: (hexTxt n ++ ',' :: ' ' :: regTxt b)))
      = .ok (.csr op.mnemonic a n b) [] := by
  simp only [pCsr, mn_stage_exact csrMn low_csr op (ex6 op h) _ (wordEnd_space _), bind_ok, pReg_space,
    pImm_space, pReg_regTxt_comma a ha, pComma_comma, pImm_hexTxt_comma, pReg_regTxt_nil b hb, map_ok]

theorem chain_CSRI (op : Op) (h : cls op = .csri) (a n : Nat) (v : Int) (ha : a < 32)
    (hv : v.natAbs < 10 ^ 4300) :
    pCsri (mn op ++ ' ' :: (regTxt a ++ ',' :: ' ' :: (hexTxt n ++ ',' :: ' ' :: decTxt v)))
      = .ok (.csri op.mnemonic a n v) [] := by
  simp only [pCsri, mn_stage_exact csriMn low_csri op (ex7 op h) _ (wordEnd_space _), bind_ok, pReg_space,
    pImm_space, pReg_regTxt_comma a ha, pComma_comma, pImm_hexTxt_comma, pImm_decTxt_nil v hv, map_ok]

theorem chain_ecall : pEnv (mn .ecall) = .ok (.str "ecall") [] := by
  have := kw_stage "ecall" (by decide) .ecall [] wordEnd_nil
  simp only [List.append_nil] at this
  simp only [pEnv, first, this]
  rfl

theorem chain_ebreak : pEnv (mn .ebreak) = .ok (.str "ebreak") [] := by
  have h1 := kw_stage "ecall" (by decide) .ebreak [] wordEnd_nil
  have h2 := kw_stage "ebreak" (by decide) .ebreak [] wordEnd_nil
  simp only [List.append_nil] at h1 h2
  simp only [pEnv, first, h1, h2]
  rfl

/-! ### negative chains: alternatives that share the mnemonic but not the operand syntax -/

theorem pBType_fail_RRI (op : Op) (h : cls op = .b) (a b : Nat) (v : Int) (ha : a < 32) (hb : b < 32) :
    pBType (mn op ++ ' ' :: (regTxt a ++ ',' :: ' ' :: (regTxt b ++ ',' :: ' ' :: decTxt v))) = .fail := by
  simp only [pBType, mn_stage_exact bMn low_b op (ex2 op h) _ (wordEnd_space _), bind_ok, pReg_space,
    pLabel_space, pReg_regTxt_comma a ha, pComma_comma, pReg_regTxt_comma b hb, pLabel_fail_decTxt_nil,
    bind_fail]

theorem pMemory_fail_jalr (a : Nat) (ha : a < 32) (r : Inp) :
    pMemory (mn .jalr ++ ' ' :: (regTxt a ++ ',' :: ' ' :: (regTxt b ++ r))) = .fail := by
  have h3 := mn_stage_exact L3 low_3 .jalr (ex3 .jalr (by decide))
    (' ' :: (regTxt a ++ ',' :: ' ' :: (regTxt b ++ r))) (wordEnd_space _)
  rw [L3] at h3
  simp only [pMemory, h3, bind_ok, pReg_space, pImm_space, pReg_regTxt_comma a ha, pComma_comma,
    pImm_fail_regTxt, bind_fail]

theorem pMemPseudo_lose_jalr (a b : Nat) (ha : a < 32) (hb : b < 32) (r : Inp) :
    Lose (pMemPseudo (mn .jalr ++ ' ' :: (regTxt a ++ ',' :: ' ' :: (regTxt b ++ ',' :: r)))) := by
  have h4 := mn_stage_exact L4 low_4 .jalr (ex4 .jalr (by decide))
    (' ' :: (regTxt a ++ ',' :: ' ' :: (regTxt b ++ ',' :: r))) (wordEnd_space _)
  rw [L4] at h4
  simp only [pMemPseudo, h4, bind_ok, pReg_space, pVariable_space, pReg_regTxt_comma a ha, pComma_comma,
    pVariable_regTxt_comma b hb, map_ok]
  exact lose_ok_cons _ _ _

theorem pJal_fail_jalr (r : Inp) : pJal (mn .jalr ++ ' ' :: r) = .fail := by
  have hk : caselessLit "jal" (mn .jalr ++ ' ' :: r) = .ok () ('r' :: ' ' :: r) := by
    rw [kw_stage "jal" (by decide) .jalr _ (wordEnd_space _)]
    rfl
  simp only [pJal, hk, bind_ok, pReg_fail_r, bind_fail]

theorem pMemPseudo_fail_MEM (op : Op) (h : cls op = .load) (a : Nat) (v : Int) (ha : a < 32) (r : Inp) :
    pMemPseudo (mn op ++ ' ' :: (regTxt a ++ ',' :: ' ' :: (decTxt v ++ r))) = .fail := by
  have h4 := mn_stage_exact L4 low_4 op (ex4 op (Or.inl h))
    (' ' :: (regTxt a ++ ',' :: ' ' :: (decTxt v ++ r))) (wordEnd_space _)
  rw [L4] at h4
  simp only [pMemPseudo, h4, bind_ok, pReg_space, pVariable_space, pReg_regTxt_comma a ha, pComma_comma,
    pVariable_fail_decTxt, map_fail]

theorem pSPseudo_fail_MEM (op : Op) (h : cls op = .store) (a : Nat) (v : Int) (ha : a < 32) (r : Inp) :
    pSPseudo (mn op ++ ' ' :: (regTxt a ++ ',' :: ' ' :: (decTxt v ++ r))) = .fail := by
  simp only [pSPseudo, mn_stage_exact sMn low_s op (ex5 op h) _ (wordEnd_space _), bind_ok, pReg_space,
    pVariable_space, pReg_regTxt_comma a ha, pComma_comma, pVariable_fail_decTxt, bind_fail]

theorem pRegRegImm_fail_MEM (op : Op) (h : cls op = .load ∨ cls op = .store) (a : Nat) (v : Int)
    (ha : a < 32) (r : Inp) :
    pRegRegImm (mn op ++ ' ' :: (regTxt a ++ ',' :: ' ' :: (decTxt v ++ r))) = .fail := by
  have h8 := mn_stage_exact L8 low_8 op (ex8 op (by rcases h with h | h <;> simp [h]))
    (' ' :: (regTxt a ++ ',' :: ' ' :: (decTxt v ++ r))) (wordEnd_space _)
  rw [L8] at h8
  simp only [pRegRegImm, h8, bind_ok, pReg_space, pReg_regTxt_comma a ha, pComma_comma, pReg_fail_decTxt,
    bind_fail]

/-! ### `pInstrBody` -/

def alts : List (Inp → R Item) :=
  [ fun j => (pRType j).map Item.grp, fun j => (pUType j).map Item.grp, fun j => (pBType j).map Item.grp,
    fun j => (pMemory j).map Item.grp, fun j => (pMemPseudo j).map Item.grp, fun j => (pSPseudo j).map Item.grp,
    fun j => (pCsr j).map Item.grp, fun j => (pCsri j).map Item.grp, fun j => (pRegRegImm j).map Item.grp,
    fun j => (pFence j).map Item.grp, fun j => (pJal j).map Item.grp,
    fun j => pEnv j,
    fun j => (caselessLit "nop" j).map (fun _ => Item.str "nop"),
    fun j => (pLi j).map Item.grp, fun j => (pMv j).map Item.grp ]

theorem pInstrBody_eq (i : Inp) :
    pInstrBody i = if (alts.map (fun p => p i)).any isAbort
      then .abort else (alts.map (fun p => p i)).foldl orStep .fail := orLongest_eq alts i

theorem body_R (op : Op) (h : cls op = .r) (a b c : Nat) (ha : a < 32) (hb : b < 32) (hc : c < 32) :
    pInstrBody (mn op ++ ' ' :: (regTxt a ++ ',' :: ' ' :: (regTxt b ++ ',' :: ' ' :: regTxt c)))
      = .ok (.grp (.rtype op.mnemonic a b c)) [] := by
  have hr : WordEnd (' ' :: (regTxt a ++ ',' :: ' ' :: (regTxt b ++ ',' :: ' ' :: regTxt c))) := wordEnd_space _
  rw [pInstrBody_eq]
  simp only [alts, List.map_cons, List.map_nil, chain_R op h a b c ha hb hc,
    pUType_fail op _ (by rw [h]; decide) hr, pBType_fail op _ (by rw [h]; decide) hr,
    pMemory_fail op _ (by rw [h]; decide) (by rw [h]; decide) (by rw [h]; decide) hr,
    pMemPseudo_fail op _ (by rw [h]; decide) (by rw [h]; decide) hr,
    pSPseudo_fail op _ (by rw [h]; decide) hr, pCsr_fail op _ (by rw [h]; decide) hr,
    pCsri_fail op _ (by rw [h]; decide) hr,
    pRegRegImm_fail op _ (by rw [h]; decide) (by rw [h]; decide) (by rw [h]; decide) (by rw [h]; decide)
      (by rw [h]; decide) hr,
    pFence_fail op _ (by rw [h]; decide) hr, pJal_fail op _ (by rw [h]; decide) (by rw [h]; decide) hr,
    pEnv_fail op _ (by rw [h]; decide) (by rw [h]; decide) hr, pNop_fail op _ hr, pLi_fail op _ hr,
    pMv_fail op _ hr, map_ok, map_fail]
  rfl

theorem body_I (op : Op) (h : cls op = .imm3) (a b : Nat) (v : Int) (ha : a < 32) (hb : b < 32)
    (hv : v.natAbs < 10 ^ 4300) :
    pInstrBody (mn op ++ ' ' :: (regTxt a ++ ',' :: ' ' :: (regTxt b ++ ',' :: ' ' :: decTxt v)))
      = .ok (.grp (.rri op.mnemonic a b v)) [] := by
  have hr : WordEnd (' ' :: (regTxt a ++ ',' :: ' ' :: (regTxt b ++ ',' :: ' ' :: decTxt v))) := wordEnd_space _
  rw [pInstrBody_eq]
  simp only [alts, List.map_cons, List.map_nil, chain_RRI op (Or.inl h) a b v ha hb hv,
    pRType_fail op _ (by rw [h]; decide) hr,
    pUType_fail op _ (by rw [h]; decide) hr, pBType_fail op _ (by rw [h]; decide) hr,
    pMemory_fail op _ (by rw [h]; decide) (by rw [h]; decide) (by rw [h]; decide) hr,
    pMemPseudo_fail op _ (by rw [h]; decide) (by rw [h]; decide) hr,
    pSPseudo_fail op _ (by rw [h]; decide) hr, pCsr_fail op _ (by rw [h]; decide) hr,
    pCsri_fail op _ (by rw [h]; decide) hr,
    pFence_fail op _ (by rw [h]; decide) hr, pJal_fail op _ (by rw [h]; decide) (by rw [h]; decide) hr,
    pEnv_fail op _ (by rw [h]; decide) (by rw [h]; decide) hr, pNop_fail op _ hr, pLi_fail op _ hr,
    pMv_fail op _ hr, map_ok, map_fail]
  rfl

theorem body_jalr (a b : Nat) (v : Int) (ha : a < 32) (hb : b < 32) (hv : v.natAbs < 10 ^ 4300) :
    pInstrBody (mn .jalr ++ ' ' :: (regTxt a ++ ',' :: ' ' :: (regTxt b ++ ',' :: ' ' :: decTxt v)))
      = .ok (.grp (.rri "jalr" a b v)) [] := by
  have hr : WordEnd (' ' :: (regTxt a ++ ',' :: ' ' :: (regTxt b ++ ',' :: ' ' :: decTxt v))) := wordEnd_space _
  have hl := pMemPseudo_lose_jalr a b ha hb (' ' :: decTxt v)
  rw [pInstrBody_eq]
  cases hps : pMemPseudo (mn .jalr ++ ' ' :: (regTxt a ++ ',' :: ' ' :: (regTxt b ++ ',' :: ' ' :: decTxt v))) with
  | abort => rw [hps] at hl; exact absurd hl (by simp [Lose])
  | fail =>
    simp only [alts, List.map_cons, List.map_nil, chain_RRI .jalr (Or.inr (Or.inl rfl)) a b v ha hb hv, hps,
      pRType_fail .jalr _ (by decide) hr,
      pUType_fail .jalr _ (by decide) hr, pBType_fail .jalr _ (by decide) hr,
      pMemory_fail_jalr a ha,
      pSPseudo_fail .jalr _ (by decide) hr, pCsr_fail .jalr _ (by decide) hr,
      pCsri_fail .jalr _ (by decide) hr,
      pFence_fail .jalr _ (by decide) hr, pJal_fail_jalr,
      pEnv_fail .jalr _ (by decide) (by decide) hr, pNop_fail .jalr _ hr, pLi_fail .jalr _ hr,
      pMv_fail .jalr _ hr, map_ok, map_fail]
    rfl
  | ok x rest =>
    rw [hps] at hl
    have hlen : 0 < rest.length := List.length_pos_iff.mpr hl
    simp only [alts, List.map_cons, List.map_nil, chain_RRI .jalr (Or.inr (Or.inl rfl)) a b v ha hb hv, hps,
      pRType_fail .jalr _ (by decide) hr,
      pUType_fail .jalr _ (by decide) hr, pBType_fail .jalr _ (by decide) hr,
      pMemory_fail_jalr a ha,
      pSPseudo_fail .jalr _ (by decide) hr, pCsr_fail .jalr _ (by decide) hr,
      pCsri_fail .jalr _ (by decide) hr,
      pFence_fail .jalr _ (by decide) hr, pJal_fail_jalr,
      pEnv_fail .jalr _ (by decide) (by decide) hr, pNop_fail .jalr _ hr, pLi_fail .jalr _ hr,
      pMv_fail .jalr _ hr, map_ok, map_fail]
    simp [orStep, hlen]
    rfl

theorem body_load (op : Op) (h : cls op = .load) (a b : Nat) (v : Int) (ha : a < 32) (hb : b < 32)
    (hv : v.natAbs < 10 ^ 4300) :
    pInstrBody (mn op ++ ' ' :: (regTxt a ++ ',' :: ' ' :: (decTxt v ++ '(' :: (regTxt b ++ [')']))))
      = .ok (.grp (.mem op.mnemonic a v b)) [] := by
  have hr : WordEnd (' ' :: (regTxt a ++ ',' :: ' ' :: (decTxt v ++ '(' :: (regTxt b ++ [')'])))) := wordEnd_space _
  rw [pInstrBody_eq]
  simp only [alts, List.map_cons, List.map_nil, chain_MEM op (Or.inl h) a b v ha hb hv,
    pRType_fail op _ (by rw [h]; decide) hr,
    pUType_fail op _ (by rw [h]; decide) hr, pBType_fail op _ (by rw [h]; decide) hr,
    pMemPseudo_fail_MEM op h a v ha, pRegRegImm_fail_MEM op (Or.inl h) a v ha,
    pSPseudo_fail op _ (by rw [h]; decide) hr, pCsr_fail op _ (by rw [h]; decide) hr,
    pCsri_fail op _ (by rw [h]; decide) hr,
    pFence_fail op _ (by rw [h]; decide) hr, pJal_fail op _ (by rw [h]; decide) (by rw [h]; decide) hr,
    pEnv_fail op _ (by rw [h]; decide) (by rw [h]; decide) hr, pNop_fail op _ hr, pLi_fail op _ hr,
    pMv_fail op _ hr, map_ok, map_fail]
  rfl

theorem body_store (op : Op) (h : cls op = .store) (a b : Nat) (v : Int) (ha : a < 32) (hb : b < 32)
    (hv : v.natAbs < 10 ^ 4300) :
    pInstrBody (mn op ++ ' ' :: (regTxt a ++ ',' :: ' ' :: (decTxt v ++ '(' :: (regTxt b ++ [')']))))
      = .ok (.grp (.mem op.mnemonic a v b)) [] := by
  have hr : WordEnd (' ' :: (regTxt a ++ ',' :: ' ' :: (decTxt v ++ '(' :: (regTxt b ++ [')'])))) := wordEnd_space _
  rw [pInstrBody_eq]
  simp only [alts, List.map_cons, List.map_nil, chain_MEM op (Or.inr h) a b v ha hb hv,
    pRType_fail op _ (by rw [h]; decide) hr,
    pUType_fail op _ (by rw [h]; decide) hr, pBType_fail op _ (by rw [h]; decide) hr,
    pMemPseudo_fail op _ (by rw [h]; decide) (by rw [h]; decide) hr,
    pSPseudo_fail_MEM op h a v ha, pRegRegImm_fail_MEM op (Or.inr h) a v ha,
    pCsr_fail op _ (by rw [h]; decide) hr,
    pCsri_fail op _ (by rw [h]; decide) hr,
    pFence_fail op _ (by rw [h]; decide) hr, pJal_fail op _ (by rw [h]; decide) (by rw [h]; decide) hr,
    pEnv_fail op _ (by rw [h]; decide) (by rw [h]; decide) hr, pNop_fail op _ hr, pLi_fail op _ hr,
    pMv_fail op _ hr, map_ok, map_fail]
  rfl

theorem body_B (op : Op) (h : cls op = .b) (a b : Nat) (v : Int) (ha : a < 32) (hb : b < 32)
    (hv : v.natAbs < 10 ^ 4300) :
    pInstrBody (mn op ++ ' ' :: (regTxt a ++ ',' :: ' ' :: (regTxt b ++ ',' :: ' ' :: decTxt v)))
      = .ok (.grp (.rri op.mnemonic a b v)) [] := by
  have hr : WordEnd (' ' :: (regTxt a ++ ',' :: ' ' :: (regTxt b ++ ',' :: ' ' :: decTxt v))) := wordEnd_space _
  rw [pInstrBody_eq]
  simp only [alts, List.map_cons, List.map_nil, chain_RRI op (Or.inr (Or.inr h)) a b v ha hb hv,
    pRType_fail op _ (by rw [h]; decide) hr,
    pUType_fail op _ (by rw [h]; decide) hr, pBType_fail_RRI op h a b v ha hb,
    pMemory_fail op _ (by rw [h]; decide) (by rw [h]; decide) (by rw [h]; decide) hr,
    pMemPseudo_fail op _ (by rw [h]; decide) (by rw [h]; decide) hr,
    pSPseudo_fail op _ (by rw [h]; decide) hr, pCsr_fail op _ (by rw [h]; decide) hr,
    pCsri_fail op _ (by rw [h]; decide) hr,
    pFence_fail op _ (by rw [h]; decide) hr, pJal_fail op _ (by rw [h]; decide) (by rw [h]; decide) hr,
    pEnv_fail op _ (by rw [h]; decide) (by rw [h]; decide) hr, pNop_fail op _ hr, pLi_fail op _ hr,
    pMv_fail op _ hr, map_ok, map_fail]
  rfl

theorem body_U (op : Op) (h : cls op = .u) (a : Nat) (v : Int) (ha : a < 32) (hv : v.natAbs < 10 ^ 4300) :
    pInstrBody (mn op ++ ' ' :: (regTxt a ++ ',' :: ' ' :: decTxt v))
      = .ok (.grp (.utype op.mnemonic a v)) [] := by
  have hr : WordEnd (' ' :: (regTxt a ++ ',' :: ' ' :: decTxt v)) := wordEnd_space _
  rw [pInstrBody_eq]
  simp only [alts, List.map_cons, List.map_nil, chain_U op h a v ha hv,
    pRType_fail op _ (by rw [h]; decide) hr, pBType_fail op _ (by rw [h]; decide) hr,
    pMemory_fail op _ (by rw [h]; decide) (by rw [h]; decide) (by rw [h]; decide) hr,
    pMemPseudo_fail op _ (by rw [h]; decide) (by rw [h]; decide) hr,
    pSPseudo_fail op _ (by rw [h]; decide) hr, pCsr_fail op _ (by rw [h]; decide) hr,
    pCsri_fail op _ (by rw [h]; decide) hr,
    pRegRegImm_fail op _ (by rw [h]; decide) (by rw [h]; decide) (by rw [h]; decide) (by rw [h]; decide)
      (by rw [h]; decide) hr,
    pFence_fail op _ (by rw [h]; decide) hr, pJal_fail op _ (by rw [h]; decide) (by rw [h]; decide) hr,
    pEnv_fail op _ (by rw [h]; decide) (by rw [h]; decide) hr, pNop_fail op _ hr, pLi_fail op _ hr,
    pMv_fail op _ hr, map_ok, map_fail]
  rfl

theorem body_J (a : Nat) (v : Int) (ha : a < 32) (hv : v.natAbs < 10 ^ 4300) :
    pInstrBody (mn .jal ++ ' ' :: (regTxt a ++ ',' :: ' ' :: decTxt v)) = .ok (.grp (.jalImm a v)) [] := by
  have hr : WordEnd (' ' :: (regTxt a ++ ',' :: ' ' :: decTxt v)) := wordEnd_space _
  rw [pInstrBody_eq]
  simp only [alts, List.map_cons, List.map_nil, chain_J a v ha hv,
    pRType_fail .jal _ (by decide) hr, pUType_fail .jal _ (by decide) hr, pBType_fail .jal _ (by decide) hr,
    pMemory_fail .jal _ (by decide) (by decide) (by decide) hr,
    pMemPseudo_fail .jal _ (by decide) (by decide) hr,
    pSPseudo_fail .jal _ (by decide) hr, pCsr_fail .jal _ (by decide) hr,
    pCsri_fail .jal _ (by decide) hr,
    pRegRegImm_fail .jal _ (by decide) (by decide) (by decide) (by decide) (by decide) hr,
    pFence_fail .jal _ (by decide) hr,
    pEnv_fail .jal _ (by decide) (by decide) hr, pNop_fail .jal _ hr, pLi_fail .jal _ hr,
    pMv_fail .jal _ hr, map_ok, map_fail]
  rfl

theorem body_env (op : Op) (h : cls op = .ecall ∨ cls op = .ebreak) :
    pInstrBody (mn op) = .ok (.str op.mnemonic) [] := by
  have hr : WordEnd [] := wordEnd_nil
  have hE : pEnv (mn op) = .ok (.str op.mnemonic) [] := by
    have h1 : ∀ op, cls op = .ecall → op = .ecall := by intro op; cases op <;> decide
    have h2 : ∀ op, cls op = .ebreak → op = .ebreak := by intro op; cases op <;> decide
    rcases h with h | h
    · rw [h1 op h]; exact chain_ecall
    · rw [h2 op h]; exact chain_ebreak
  have hne1 : cls op ≠ .r ∧ cls op ≠ .u ∧ cls op ≠ .b ∧ cls op ≠ .load ∧ cls op ≠ .store ∧ cls op ≠ .jalr ∧
      cls op ≠ .csr ∧ cls op ≠ .csri ∧ cls op ≠ .imm3 ∧ cls op ≠ .fence ∧ cls op ≠ .jal := by
    rcases h with h | h <;> rw [h] <;> decide
  obtain ⟨n1, n2, n3, n4, n5, n6, n7, n8, n9, n10, n11⟩ := hne1
  have e0 := pRType_fail op [] n1 hr
  have e1 := pUType_fail op [] n2 hr
  have e2 := pBType_fail op [] n3 hr
  have e3 := pMemory_fail op [] n4 n5 n6 hr
  have e4 := pMemPseudo_fail op [] n4 n6 hr
  have e5 := pSPseudo_fail op [] n5 hr
  have e6 := pCsr_fail op [] n7 hr
  have e7 := pCsri_fail op [] n8 hr
  have e8 := pRegRegImm_fail op [] n9 n6 n4 n5 n3 hr
  have e9 := pFence_fail op [] n10 hr
  have e10 := pJal_fail op [] n11 n6 hr
  have e12 := pNop_fail op [] hr
  have e13 := pLi_fail op [] hr
  have e14 := pMv_fail op [] hr
  simp only [List.append_nil] at e0 e1 e2 e3 e4 e5 e6 e7 e8 e9 e10 e12 e13 e14
  rw [pInstrBody_eq]
  simp only [alts, List.map_cons, List.map_nil, hE, e0, e1, e2, e3, e4, e5, e6, e7, e8, e9, e10, e12, e13, e14,
    map_fail]
  rfl

theorem body_CSR (op : Op) (h : cls op = .csr) (a b n : Nat) (ha : a < 32) (hb : b < 32) :
    pInstrBody (mn op ++ ' ' :: (regTxt a ++ ',' :: ' ' :: (hexTxt n ++ ',' :: ' ' :: regTxt b)))
      = .ok (.grp (.csr op.mnemonic a n b)) [] := by
  have hr : WordEnd (' ' :: (regTxt a ++ ',' :: ' ' :: (hexTxt n ++ ',' :: ' ' :: regTxt b))) := wordEnd_space _
  rw [pInstrBody_eq]
  simp only [alts, List.map_cons, List.map_nil, chain_CSR op h a b n ha hb,
    pRType_fail op _ (by rw [h]; decide) hr,
    pUType_fail op _ (by rw [h]; decide) hr, pBType_fail op _ (by rw [h]; decide) hr,
    pMemory_fail op _ (by rw [h]; decide) (by rw [h]; decide) (by rw [h]; decide) hr,
    pMemPseudo_fail op _ (by rw [h]; decide) (by rw [h]; decide) hr,
    pSPseudo_fail op _ (by rw [h]; decide) hr,
    pCsri_fail op _ (by rw [h]; decide) hr,
    pRegRegImm_fail op _ (by rw [h]; decide) (by rw [h]; decide) (by rw [h]; decide) (by rw [h]; decide)
      (by rw [h]; decide) hr,
    pFence_fail op _ (by rw [h]; decide) hr, pJal_fail op _ (by rw [h]; decide) (by rw [h]; decide) hr,
    pEnv_fail op _ (by rw [h]; decide) (by rw [h]; decide) hr, pNop_fail op _ hr, pLi_fail op _ hr,
    pMv_fail op _ hr, map_ok, map_fail]
  rfl

theorem body_CSRI (op : Op) (h : cls op = .csri) (a n : Nat) (v : Int) (ha : a < 32)
    (hv : v.natAbs < 10 ^ 4300) :
    pInstrBody (mn op ++ ' ' :: (regTxt a ++ ',' :: ' ' :: (hexTxt n ++ ',' :: ' ' :: decTxt v)))
      = .ok (.grp (.csri op.mnemonic a n v)) [] := by
  have hr : WordEnd (' ' :: (regTxt a ++ ',' :: ' ' :: (hexTxt n ++ ',' :: ' ' :: decTxt v))) := wordEnd_space _
  rw [pInstrBody_eq]
  simp only [alts, List.map_cons, List.map_nil, chain_CSRI op h a n v ha hv,
    pRType_fail op _ (by rw [h]; decide) hr,
    pUType_fail op _ (by rw [h]; decide) hr, pBType_fail op _ (by rw [h]; decide) hr,
    pMemory_fail op _ (by rw [h]; decide) (by rw [h]; decide) (by rw [h]; decide) hr,
    pMemPseudo_fail op _ (by rw [h]; decide) (by rw [h]; decide) hr,
    pSPseudo_fail op _ (by rw [h]; decide) hr,
    pCsr_fail op _ (by rw [h]; decide) hr,
    pRegRegImm_fail op _ (by rw [h]; decide) (by rw [h]; decide) (by rw [h]; decide) (by rw [h]; decide)
      (by rw [h]; decide) hr,
    pFence_fail op _ (by rw [h]; decide) hr, pJal_fail op _ (by rw [h]; decide) (by rw [h]; decide) hr,
    pEnv_fail op _ (by rw [h]; decide) (by rw [h]; decide) hr, pNop_fail op _ hr, pLi_fail op _ hr,
    pMv_fail op _ hr, map_ok, map_fail]
  rfl

/-! ### `parseLine` -/

/-- what follows a printed mnemonic: nothing, or a blank and a register -/
def MnEnd (rest : Inp) : Prop := rest = [] ∨ ∃ r, rest = ' ' :: 'x' :: r

theorem MnEnd.wordEnd {rest : Inp} (h : MnEnd rest) : WordEnd rest := by
  rcases h with h | ⟨r, h⟩
  · exact Or.inl h
  · exact Or.inr ⟨_, h⟩

theorem mnEnd_nil : MnEnd [] := Or.inl rfl
theorem mnEnd_reg (n : Nat) (r : Inp) : MnEnd (' ' :: (regTxt n ++ r)) := Or.inr ⟨_, rfl⟩

theorem low_label_facts : ∀ p ∈ lowList, isLabelInit p = true ∧ isLabelBody p = true ∧ p ≠ '.' := by decide

theorem pLabel_mn (op : Op) (rest : Inp) (hr : MnEnd rest) :
    pLabel (mn op ++ rest) = .ok (String.ofList (mn op)) rest := by
  obtain ⟨hlow, hne⟩ := mn_low op
  have hbody : ∀ c ∈ mn op, isLabelBody c = true :=
    fun c hc => (low_label_facts c (isLow_mem c (hlow c hc))).2.1
  have hrest : ∀ c ∈ rest.head?, isLabelBody c = false := by
    rcases hr with rfl | ⟨r, rfl⟩
    · simp
    · simp; decide
  cases hm : mn op with
  | nil => exact absurd hm hne
  | cons c cs =>
    rw [hm] at hlow hbody
    have hc := low_label_facts c (isLow_mem c (hlow c (by simp)))
    have hcs : ∀ d ∈ cs, isLabelBody d = true := fun d hd => hbody d (by simp [hd])
    simp only [pLabel, word, List.cons_append, skipWs_cons_of_not_ws c _ (low_facts c (isLow_mem c (hlow c (by simp)))).1,
      wordAdj, hc.1, if_true, takeWhile_class isLabelBody cs rest hcs hrest,
      dropWhile_class isLabelBody cs rest hcs hrest]

theorem pColon_mnEnd (rest : Inp) (hr : MnEnd rest) : pColon rest = .fail := by
  rcases hr with rfl | ⟨r, rfl⟩
  · simp [pColon, lit, stripPrefix]
  · simp [pColon, lit, skipWs_cons_of_not_ws 'x' r (by decide), stripPrefix]

theorem pDirective_mn (op : Op) (rest : Inp) : pDirective (mn op ++ rest) = .fail := by
  obtain ⟨hlow, hne⟩ := mn_low op
  cases hm : mn op with
  | nil => exact absurd hm hne
  | cons c cs =>
    rw [hm] at hlow
    have hc := low_label_facts c (isLow_mem c (hlow c (by simp)))
    simp [pDirective, lit, skipWs_cons_of_not_ws c _ (low_facts c (isLow_mem c (hlow c (by simp)))).1,
      stripPrefix, Ne.symm hc.2.2]

/-- A printed form is tokenized as an instruction without an in-line label. -/
theorem parseLine_of_body (op : Op) (rest : Inp) (hr : MnEnd rest) (it : Item)
    (hb : pInstrBody (mn op ++ rest) = .ok it []) :
    parseLine (mn op ++ rest) = some { lbl := none, item := it } := by
  have hl := pLabel_mn op rest hr
  have hc := pColon_mnEnd rest hr
  have h1 : pVarDecl (mn op ++ rest) = .fail := by simp only [pVarDecl, hl, hc, bind_ok, bind_fail]
  have h2 : pStrDecl (mn op ++ rest) = .fail := by simp only [pStrDecl, hl, hc, bind_ok, bind_fail]
  have h3 : pZeroDecl (mn op ++ rest) = .fail := by simp only [pZeroDecl, hl, hc, bind_ok, bind_fail]
  have h4 : pLabelDecl (mn op ++ rest) = .fail := by simp only [pLabelDecl, hl, hc, bind_ok, map_fail]
  have h5 : pInstruction (mn op ++ rest) = .ok { lbl := none, item := it } [] := by
    simp only [pInstruction, opt, h4, bind_ok, hb, map_ok]
  have h0 := pDirective_mn op rest
  unfold parseLine
  rw [orLongest_eq]
  simp only [List.map_cons, List.map_nil, h0, h1, h2, h3, h4, h5, map_fail]
  rfl

end ArchSim.Lemmas.C14
