/-
Model of the displayed TABLES (inspection functions), as structured values:
  `RiscvSimulation.get_register_entries()`      → `regTable`
  `RiscvSimulation.get_data_memory_entries()`   → `dataTable`
  `ToySimulation.get_register_representations()`→ `toyRegs`
  `ToySimulation.get_memory_table_entries()`    → `toyMemTable`
The driver renders these structures to text; the theorems of `Props/C17Views.lean` speak about them.
Import-free apart from the other model files: compiled into the driver.
-/
import ArchSim.Model.Fmt
import ArchSim.Model.Mem
import ArchSim.Model.Toy

namespace ArchSim.Views
open ArchSim

/-- `"{:0wX}".format(n)` for a natural number: upper-case hex, zero padded to at least `w` digits. -/
def upHex (w : Nat) (n : Nat) : String :=
  String.ofList (Fmt.padLeft w (Fmt.natStr 16 n))

/-- `"0x" + "{:0wX}".format(address)` (addresses shown are never negative). -/
def addrText (w : Nat) (a : Int) : String := "0x" ++ upHex w a.toNat

/-! ### RISC-V register table -/

/-- `RegisterFile.reg_repr()`: the 32-bit representations of registers 0..31, in order. -/
def regTable (regs : Nat → Nat) : List Fmt.Reprs :=
  (List.range 32).map fun r => Fmt.nBitRepr (regs r) 32

/-! ### memory tables: `sorted(memory_repr.items())` -/

/-- Order of `sorted(dict.items())`: by key (keys of a dict are distinct, so the values never decide). -/
def addrLe (p q : Int × Nat) : Bool := decide (p.1 ≤ q.1)

/-- The (aligned address, value) pairs of `_memory_repr(bits)`, sorted by address. -/
def sortedEntries (m : Mem.Mem) (bits : Nat) : Except Mem.AddrErr (List (Int × Nat)) :=
  match Mem.reprEntries m bits with
  | .error e => .error e
  | .ok l => .ok (l.mergeSort addrLe)

/-- One row of `get_data_memory_entries()`: `((address, "0x%08X"), (bin, udec, hex, sdec))`. -/
structure DataRow where
  addr     : Int
  addrText : String
  reprs    : Fmt.Reprs
deriving Repr, DecidableEq

def dataRow (p : Int × Nat) : DataRow :=
  { addr := p.1, addrText := addrText 8 p.1, reprs := Fmt.nBitRepr p.2 32 }

/-- `RiscvSimulation.get_data_memory_entries()` on the backing store `m`. -/
def dataTable (m : Mem.Mem) : Except Mem.AddrErr (List DataRow) :=
  match sortedEntries m 32 with
  | .error e => .error e
  | .ok l => .ok (l.map dataRow)

/-! ### TOY register view -/

/-- `ToySimulation.has_instructions()` -/
def hasInstructions (t : Toy.TSim) : Bool :=
  match t.s.maxPc with | some m => decide (m ≥ 0) | none => false

/-- `get_register_representations()`; `none` stands for the tuple of four empty strings. -/
structure ToyRegs where
  accu : Option Fmt.Reprs
  pc   : Option Fmt.Reprs
  ir   : Option Fmt.Reprs
deriving Repr, DecidableEq

def toyRegs (t : Toy.TSim) : ToyRegs :=
  { accu := if hasInstructions t then some (Fmt.nBitRepr t.s.accu 16) else none
    pc   := if hasInstructions t then some (Fmt.nBitRepr t.s.pc 12) else none
    ir   := match t.s.loaded with
            | some i => some (Fmt.nBitRepr (Toy.encode i) 16)
            | none => none }

/-! ### TOY memory table -/

/-- `str(ToyInstruction.from_integer(w))`: mnemonic, plus `0x%03X` of the address for opcodes 0–7. -/
def toyInstrRepr (w : Nat) : String :=
  let i := Toy.decode w
  if i.opcode ≤ 7 then Toy.mnemonic i.opcode ++ " 0x" ++ upHex 3 i.addr else Toy.mnemonic i.opcode

/-- `max_pc is not None and address <= max_pc` -/
def isInstrAddr (t : Toy.TSim) (a : Int) : Bool :=
  match t.s.maxPc with | some m => decide (a ≤ m) | none => false

/-- `_get_instruction_representation(address, value)` -/
def instrText (t : Toy.TSim) (a : Int) (v : Nat) : String :=
  if isInstrAddr t a then toyInstrRepr v else "-"

/-- `"1" if self.next_cycle == 2 else "2"` -/
def cycleText (t : Toy.TSim) : String := if t.nextCycle = 2 then "1" else "2"

/-- `address_of_current_instruction is not None and address == address_of_current_instruction` -/
def isCurrent (t : Toy.TSim) (a : Int) : Bool := decide (t.s.addrCur = some a.toNat ∧ a ≥ 0)

/-- One row of `get_memory_table_entries()`:
    `((address, "0x%03X"), (bin, udec, hex, sdec), instruction text, cycle mark)`. -/
structure ToyRow where
  addr     : Int
  addrText : String
  reprs    : Fmt.Reprs
  instr    : String
  mark     : String
deriving Repr, DecidableEq

def toyRow (t : Toy.TSim) (p : Int × Nat) : ToyRow :=
  { addr := p.1, addrText := addrText 3 p.1, reprs := Fmt.nBitRepr p.2 16
    instr := instrText t p.1 p.2
    mark := if isCurrent t p.1 then cycleText t else "" }

/-- `ToySimulation.get_memory_table_entries()` -/
def toyMemTable (t : Toy.TSim) : Except Mem.AddrErr (List ToyRow) :=
  match sortedEntries t.s.mem 16 with
  | .error e => .error e
  | .ok l => .ok (l.map (toyRow t))

end ArchSim.Views
