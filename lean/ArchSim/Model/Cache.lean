/-
Model of the cache layer:
  `uarch/memory/decoded_address.py`, `uarch/memory/cache.py`, `util/integer_manipulation.py`,
  `uarch/memory/base_cache_memory_system.py`, `write_back_memory_system.py`,
  `write_through_memory_system.py`.

The cache is generic in the block payload `α` (32-bit words for the data cache, instructions for the
instruction cache) and in the replacement policy (`PolicyOps σ`), so that the transparency proof
(C03/C12) can quantify over *every* victim choice while the accounting proof (C09) instantiates the
real LRU/PLRU of `Model.Repl`.
Import-free: compiled into the driver.
-/
import ArchSim.Model.Repl
import ArchSim.Model.Mem

namespace ArchSim.Cache
open ArchSim

/-! ### Decoded address -/

structure DAddr where
  full      : Nat     -- `int(UInt32(address))`
  tag       : Nat
  setIdx    : Nat
  byteOff   : Nat
  blockOff  : Nat
  blockBase : Nat     -- `block_alinged_address`
deriving Repr, DecidableEq

def wrap32 (a : Int) : Nat := (a % 4294967296).toNat

def decode (idxBits blkBits : Nat) (address : Int) : DAddr :=
  let full := wrap32 address
  { full := full
    tag := full / 2 ^ (idxBits + blkBits + 2)
    setIdx := (full / 2 ^ (blkBits + 2)) % 2 ^ idxBits
    byteOff := full % 4
    blockOff := (full / 4) % 2 ^ blkBits
    blockBase := full / 2 ^ (2 + blkBits) * 2 ^ (2 + blkBits) }

/-! ### Policies -/

structure PolicyOps (σ : Type) where
  init   : Nat → σ
  access : σ → Nat → Option σ      -- `none` = the Python method raised
  victim : σ → Option Nat

def lruOps : PolicyOps Repl.Pol :=
  { init := Repl.Pol.init true, access := Repl.Pol.access, victim := Repl.Pol.victim }
def plruOps : PolicyOps Repl.Pol :=
  { init := Repl.Pol.init false, access := Repl.Pol.access, victim := Repl.Pol.victim }
def polOps (isLru : Bool) : PolicyOps Repl.Pol := if isLru then lruOps else plruOps

/-- "Forced victim" policy used by the C03/C12 correspondence: the state *is* the way the
    implementation is about to displace (read off the real policy object by the harness). -/
def forcedOps : PolicyOps Nat :=
  { init := fun _ => 0, access := fun s _ => some s, victim := fun s => some s }

/-! ### Blocks, sets, cache -/

structure Way (α : Type) where
  valid : Bool
  dirty : Bool
  tag   : Nat
  base  : Nat          -- `decoded_address.block_alinged_address` of the last write
  vals  : List α

def Way.empty {α : Type} : Way α := { valid := false, dirty := false, tag := 0, base := 0, vals := [] }

structure CSet (σ α : Type) where
  ways : List (Way α)
  pol  : σ

/-- `get_block_index`: first way that is valid and carries the tag. -/
def findWay {α : Type} (ways : List (Way α)) (tag : Nat) : Option Nat :=
  let i := ways.findIdx (fun w => w.valid && w.tag == tag)
  if i < ways.length then some i else none

inductive Err where
  | addr (a : Int)                 -- `MemoryAddressError`
  | byteOffset (off max : Nat)     -- `ByteOffsetError`
  | policy                         -- an exception escaping a replacement-policy method
  | unsupported                    -- `UnsupportedFunctionError`
deriving Repr, DecidableEq

/-- `CacheSet.read`: on a hit inform the policy and return the block. -/
def CSet.read {σ α : Type} (P : PolicyOps σ) (s : CSet σ α) (tag : Nat) :
    Except Err (CSet σ α × Option (List α)) :=
  match findWay s.ways tag with
  | none => .ok (s, none)
  | some i =>
    match P.access s.pol i with
    | none => .error .policy
    | some p => .ok ({ s with pol := p }, some ((s.ways[i]?.map (·.vals)).getD []))

/-- `CacheSet.write`: returns (new set, hit?, displaced dirty block as (base address, values)). -/
def CSet.write {σ α : Type} (P : PolicyOps σ) (s : CSet σ α) (d : DAddr) (vals : List α) :
    Except Err (CSet σ α × Bool × Option (Nat × List α)) :=
  match findWay s.ways d.tag with
  | none =>
    match P.victim s.pol with
    | none => .error .policy
    | some v =>
      match s.ways[v]? with
      | none => .error .policy          -- `self.blocks[block_index]` IndexError
      | some old =>
        let replaced := if old.dirty then some (old.base, old.vals) else none
        let w : Way α := { valid := true, dirty := true, tag := d.tag, base := d.blockBase, vals := vals }
        match P.access s.pol v with
        | none => .error .policy
        | some p => .ok ({ ways := s.ways.set v w, pol := p }, false, replaced)
  | some i =>
    let w : Way α := { valid := true, dirty := true, tag := d.tag, base := d.blockBase, vals := vals }
    match P.access s.pol i with
    | none => .error .policy
    | some p => .ok ({ ways := s.ways.set i w, pol := p }, true, none)

structure Geo where
  idxBits : Nat
  blkBits : Nat
  assoc   : Nat
deriving Repr, DecidableEq

def Geo.words (g : Geo) : Nat := 2 ^ g.blkBits

def initSets {σ α : Type} (P : PolicyOps σ) (g : Geo) : List (CSet σ α) :=
  List.replicate (2 ^ g.idxBits) { ways := List.replicate g.assoc Way.empty, pol := P.init g.assoc }

/-- `Cache.read_block` -/
def readBlock {σ α : Type} (P : PolicyOps σ) (sets : List (CSet σ α)) (d : DAddr) :
    Except Err (List (CSet σ α) × Option (List α)) :=
  match sets[d.setIdx]? with
  | none => .error .policy
  | some s =>
    match s.read P d.tag with
    | .error e => .error e
    | .ok (s', r) => .ok (sets.set d.setIdx s', r)

/-- `Cache.write_block` -/
def writeBlock {σ α : Type} (P : PolicyOps σ) (sets : List (CSet σ α)) (d : DAddr) (vals : List α) :
    Except Err (List (CSet σ α) × Bool × Option (Nat × List α)) :=
  match sets[d.setIdx]? with
  | none => .error .policy
  | some s =>
    match s.write P d vals with
    | .error e => .error e
    | .ok (s', hit, rep) => .ok (sets.set d.setIdx s', hit, rep)

/-! ### Byte lanes (`util/integer_manipulation.py`) -/

def wordAt (block : List Nat) (i : Nat) : Nat := block.getD i 0

/-- `byte_from_block / halfword_from_block / word_from_block`; `bits` ∈ {8,16,32}. -/
def fromBlock (bits : Nat) (d : DAddr) (block : List Nat) : Except Err Nat :=
  let w := wordAt block d.blockOff
  if bits = 8 then .ok ((w / 2 ^ (d.byteOff * 8)) % 256)
  else if bits = 16 then
    if d.byteOff > 2 then .error (.byteOffset d.byteOff 2)
    else .ok ((w / 2 ^ (d.byteOff * 8)) % 65536)
  else
    if d.byteOff ≠ 0 then .error (.byteOffset d.byteOff 0) else .ok w

/-- `word & ~(mask << s) | (v << s)` for a lane of `bits` bits at shift `s`, as arithmetic on
    naturals (the lane is cut out and replaced). -/
def mergeLane (w : Nat) (bits s : Nat) (v : Nat) : Nat :=
  w - ((w / 2 ^ s) % 2 ^ bits) * 2 ^ s + v * 2 ^ s

/-- The lane check the `*_into_block` / `*_from_block` helpers perform before touching the block. -/
def laneErr (bits : Nat) (d : DAddr) : Option Err :=
  if bits = 8 then none
  else if bits = 16 then (if d.byteOff > 2 then some (.byteOffset d.byteOff 2) else none)
  else (if d.byteOff ≠ 0 then some (.byteOffset d.byteOff 0) else none)

/-- `byte_into_block / halfword_into_block / word_into_block`. -/
def intoBlock (bits : Nat) (d : DAddr) (block : List Nat) (v : Nat) : Except Err (List Nat) :=
  if bits = 8 then .ok (block.set d.blockOff (mergeLane (wordAt block d.blockOff) 8 (d.byteOff * 8) v))
  else if bits = 16 then
    if d.byteOff > 2 then .error (.byteOffset d.byteOff 2)
    else .ok (block.set d.blockOff (mergeLane (wordAt block d.blockOff) 16 (d.byteOff * 8) v))
  else
    if d.byteOff ≠ 0 then .error (.byteOffset d.byteOff 0) else .ok (block.set d.blockOff v)

/-! ### Data cache memory systems -/

structure DSys (σ : Type) where
  wt       : Bool            -- write-through (else write-back)
  geo      : Geo
  penalty  : Nat
  sets     : List (CSet σ Nat)
  mem      : Mem.Mem
  hits     : Nat
  accesses : Nat
  lastHit  : Bool

def DSys.init {σ : Type} (P : PolicyOps σ) (wt : Bool) (g : Geo) (penalty : Nat) (m : Mem.Mem) : DSys σ :=
  { wt := wt, geo := g, penalty := penalty, sets := initSets P g, mem := m,
    hits := 0, accesses := 0, lastHit := false }

/-- `reset()`: a new `Cache`, and the lower memory cleared; the counters are *not* reset. -/
def DSys.reset {σ : Type} (P : PolicyOps σ) (s : DSys σ) : DSys σ :=
  { s with sets := initSets P s.geo, mem := s.mem.reset }

def liftMem {β : Type} : Except Mem.AddrErr β → Except Err β
  | .ok v => .ok v
  | .error e => .error (.addr e.address)

/-- `_read_block_from_memory`: `read_word(base + 4*i)` for `i < words`. -/
def readBlockFromMem (m : Mem.Mem) (base : Nat) : (n i : Nat) → Except Err (List Nat)
  | 0,     _ => .ok []
  | n + 1, i =>
    match Mem.read m 32 ((base : Int) + 4 * i) with
    | none => .error .unsupported
    | some (.error e) => .error (.addr e.address)
    | some (.ok w) =>
      match readBlockFromMem m base n (i + 1) with
      | .error e => .error e
      | .ok ws => .ok (w :: ws)

/-- `_write_block_to_memory`: `write_word(base + 4*i, word)` for each word; a failing write
    leaves the words before it written. -/
def writeBlockToMem (m : Mem.Mem) (base : Nat) : (ws : List Nat) → (i : Nat) → Mem.Mem × Option Err
  | [],      _ => (m, none)
  | w :: ws, i =>
    match Mem.write m 32 ((base : Int) + 4 * i) w with
    | none => (m, some .unsupported)
    | some (m', some e) => (m', some (.addr e.address))
    | some (m', none) => writeBlockToMem m' base ws (i + 1)

/-- Result of one operation of a memory system: the state afterwards (also when the operation
    raised), the value or the error, and the cycles added to the shared cycle counter. -/
structure Out (σ : Type) where
  sys   : DSys σ
  res   : Except Err Nat
  extra : Nat

/-- `_read_block` of both systems (they differ only in what happens to a displaced block). -/
def DSys.readBlockSys {σ : Type} (P : PolicyOps σ) (s : DSys σ) (d : DAddr) :
    DSys σ × Except Err (List Nat × Bool) :=
  match readBlock P s.sets d with
  | .error e => (s, .error e)
  | .ok (sets1, some vals) => ({ s with sets := sets1 }, .ok (vals, true))
  | .ok (sets1, none) =>
    match readBlockFromMem s.mem d.blockBase s.geo.words 0 with
    | .error e => ({ s with sets := sets1 }, .error e)
    | .ok vals =>
      match writeBlock P sets1 d vals with
      | .error e => ({ s with sets := sets1 }, .error e)
      | .ok (sets2, _, displaced) =>
        let s2 := { s with sets := sets2 }
        if s.wt then (s2, .ok (vals, false))
        else
          match displaced with
          | none => (s2, .ok (vals, false))
          | some (b, ws) =>
            match writeBlockToMem s2.mem b ws 0 with
            | (m', some e) => ({ s2 with mem := m' }, .error e)
            | (m', none) => ({ s2 with mem := m' }, .ok (vals, false))

/-- `read_byte / read_halfword / read_word (address, update_statistics)`. -/
def DSys.read {σ : Type} (P : PolicyOps σ) (s : DSys σ) (bits : Nat) (address : Int) (counted : Bool) :
    Out σ :=
  let d := decode s.geo.idxBits s.geo.blkBits address
  match s.readBlockSys P d with
  | (s1, .error e) => { sys := s1, res := .error e, extra := 0 }
  | (s1, .ok (vals, hit)) =>
    let s2 := if counted then
        { s1 with accesses := s1.accesses + 1, hits := s1.hits + (if hit then 1 else 0), lastHit := hit }
      else s1
    let extra := if counted && !hit then s.penalty else 0
    { sys := s2, res := fromBlock bits d vals, extra := extra }

/-- Direct write to the lower memory (`directly_write_to_lower_memory=True`). -/
def DSys.writeDirect {σ : Type} (s : DSys σ) (bits : Nat) (address : Int) (v : Nat) : Out σ :=
  match Mem.write s.mem bits address v with
  | none => { sys := s, res := .error .unsupported, extra := 0 }
  | some (m', some e) => { sys := { s with mem := m' }, res := .error (.addr e.address), extra := 0 }
  | some (m', none) => { sys := { s with mem := m' }, res := .ok 0, extra := 0 }

/-- `WriteBackMemorySystem.write_*` (write-allocate). Counters are updated only at the very end,
    so a rejected write is not counted. -/
def DSys.writeWB {σ : Type} (P : PolicyOps σ) (s : DSys σ) (bits : Nat) (address : Int) (v : Nat) : Out σ :=
  let d := decode s.geo.idxBits s.geo.blkBits address
  match readBlock P s.sets d with
  | .error e => { sys := s, res := .error e, extra := 0 }
  | .ok (sets1, cached) =>
    let s1 := { s with sets := sets1 }
    let hit := cached.isSome
    let blockE : Except Err (List Nat) := match cached with
      | some vals => .ok vals
      | none => readBlockFromMem s.mem d.blockBase s.geo.words 0
    match blockE with
    | .error e => { sys := s1, res := .error e, extra := 0 }
    | .ok block =>
      match intoBlock bits d block v with
      | .error e => { sys := s1, res := .error e, extra := 0 }
      | .ok block' =>
        match writeBlock P sets1 d block' with
        | .error e => { sys := s1, res := .error e, extra := 0 }
        | .ok (sets2, _, displaced) =>
          let s2 := { s1 with sets := sets2 }
          let wb : DSys σ × Option Err := match displaced with
            | none => (s2, none)
            | some (b, ws) =>
              match writeBlockToMem s2.mem b ws 0 with
              | (m', e) => ({ s2 with mem := m' }, e)
          match wb with
          | (s3, some e) => { sys := s3, res := .error e, extra := 0 }
          | (s3, none) =>
            { sys := { s3 with hits := s3.hits + (if hit then 1 else 0), lastHit := hit,
                               accesses := s3.accesses + 1 },
              res := .ok 0, extra := if hit then 0 else s.penalty }

/-- `WriteThroughMemorySystem.write_*` (no write-allocate). Counters and the penalty are applied
    *before* the lane check, the lower memory is written last. -/
def DSys.writeWT {σ : Type} (P : PolicyOps σ) (s : DSys σ) (bits : Nat) (address : Int) (v : Nat) : Out σ :=
  let d := decode s.geo.idxBits s.geo.blkBits address
  match readBlock P s.sets d with
  | .error e => { sys := s, res := .error e, extra := 0 }
  | .ok (sets1, cached) =>
    let hit := cached.isSome
    let extra := if hit then 0 else s.penalty
    let s1 := { s with sets := sets1, hits := s.hits + (if hit then 1 else 0), lastHit := hit,
                       accesses := s.accesses + 1 }
    let upd : Except Err (DSys σ) := match cached with
      | none =>
        -- miss: nothing is allocated, but a write that crosses a word boundary is rejected as on a hit
        match laneErr bits d with
        | some e => .error e
        | none => .ok s1
      | some block =>
        match intoBlock bits d block v with
        | .error e => .error e
        | .ok block' =>
          match writeBlock P sets1 d block' with
          | .error e => .error e
          | .ok (sets2, _, _) => .ok { s1 with sets := sets2 }
    match upd with
    | .error e => { sys := s1, res := .error e, extra := extra }
    | .ok s2 =>
      match Mem.write s2.mem bits address v with
      | none => { sys := s2, res := .error .unsupported, extra := extra }
      | some (m', some e) => { sys := { s2 with mem := m' }, res := .error (.addr e.address), extra := extra }
      | some (m', none) => { sys := { s2 with mem := m' }, res := .ok 0, extra := extra }

def DSys.write {σ : Type} (P : PolicyOps σ) (s : DSys σ) (bits : Nat) (address : Int) (v : Nat)
    (direct : Bool) : Out σ :=
  if direct then s.writeDirect bits address v
  else if s.wt then s.writeWT P bits address v else s.writeWB P bits address v

end ArchSim.Cache
