/-
Model of `architecture_simulator/uarch/memory/memory.py` (class `Memory`).

A sparse store of cells (8-bit cells for RISC-V, 16-bit for TOY), little-endian multi-cell access,
optional address wrap modulo 2^address_length, and a range assertion per cell.  A multi-cell write
that leaves the valid range writes the cells *before* the offending one and then raises
(`_write_multiple` is a plain loop over `_write_value`), which the model reproduces by returning
the mutated memory together with the error.
Import-free: compiled into the driver.
-/
namespace ArchSim.Mem

structure Cfg where
  cellBits : Nat        -- `memory_file_values_width`: 8 or 16
  addrBits : Nat        -- `address_length`
  overflow : Bool       -- `address_overflow`
  lo : Int              -- `address_range.start`
  hi : Int              -- `address_range.stop`
deriving Repr, DecidableEq

/-- RISC-V data memory as built by `RiscvArchitecturalState`. -/
def riscvCfg : Cfg := { cellBits := 8, addrBits := 32, overflow := true, lo := 16384, hi := 4294967296 }
/-- TOY unified memory as built by `ToyArchitecturalState`. -/
def toyCfg : Cfg := { cellBits := 16, addrBits := 12, overflow := false, lo := 0, hi := 4096 }

/-- `MemoryAddressError(address=…)`; the other fields are constants of the configuration. -/
structure AddrErr where
  address : Int
deriving Repr, DecidableEq

structure Mem where
  cfg   : Cfg
  cells : Int → Nat      -- value of `memory_file.get(a, 0)`
  keys  : List Int       -- keys of `memory_file` (insertion order, no duplicates)

def Mem.empty (c : Cfg) : Mem := { cfg := c, cells := fun _ => 0, keys := [] }

/-- `reset()` -/
def Mem.reset (m : Mem) : Mem := Mem.empty m.cfg

def wrapAddr (c : Cfg) (a : Int) : Int :=
  if c.overflow then a % (2 : Int) ^ c.addrBits else a

def inRange (c : Cfg) (a : Int) : Bool := decide (c.lo ≤ a) && decide (a < c.hi)

/-- `_read_value` -/
def readCell (m : Mem) (a : Int) : Except AddrErr Nat :=
  let a' := wrapAddr m.cfg a
  if inRange m.cfg a' then .ok (m.cells a') else .error ⟨a'⟩

/-- `_write_value` (the value is already reduced to the cell width by the caller). -/
def writeCell (m : Mem) (a : Int) (v : Nat) : Except AddrErr Mem :=
  let a' := wrapAddr m.cfg a
  if inRange m.cfg a' then
    .ok { m with cells := fun x => if x = a' then v else m.cells x,
                 keys := if a' ∈ m.keys then m.keys else m.keys ++ [a'] }
  else .error ⟨a'⟩

/-- `_read_multiple(address, n)`:  `res |= read(address+i) << (i*width)` for `i` ascending.
    `i` counts the cells already read. -/
def readNFrom (m : Mem) (a : Int) : (n i : Nat) → Except AddrErr Nat
  | 0,     _ => .ok 0
  | n + 1, i =>
    match readCell m (a + i) with
    | .error e => .error e
    | .ok v =>
      match readNFrom m a n (i + 1) with
      | .error e => .error e
      | .ok r => .ok (v * 2 ^ (i * m.cfg.cellBits) + r)

def readN (m : Mem) (a : Int) (n : Nat) : Except AddrErr Nat := readNFrom m a n 0

/-- `_write_multiple(address, n, value)`: cell `i` gets `value & (2^width-1)`, then `value >>= width`.
    Returns the (possibly partially written) memory and the error, if one was raised. -/
def writeNFrom (m : Mem) (a : Int) : (n i : Nat) → (v : Nat) → Mem × Option AddrErr
  | 0,     _, _ => (m, none)
  | n + 1, i, v =>
    match writeCell m (a + i) (v % 2 ^ m.cfg.cellBits) with
    | .error e => (m, some e)
    | .ok m' => writeNFrom m' a n (i + 1) (v / 2 ^ m.cfg.cellBits)

def writeN (m : Mem) (a : Int) (n : Nat) (v : Nat) : Mem × Option AddrErr := writeNFrom m a n 0 v

/-- Number of cells of an access of `bits` bits: `bits // memory_file_values_width`. -/
def cellsOf (c : Cfg) (bits : Nat) : Nat := bits / c.cellBits

/-- `read_byte / read_halfword / read_word`; `width` in bits. `UnsupportedFunctionError` when the
    cell is wider than the access is modelled as `none`. The result is truncated to `width` bits
    by the `UIntN(...)` constructor (a no-op for in-range cells, kept for faithfulness). -/
def read (m : Mem) (bits : Nat) (a : Int) : Option (Except AddrErr Nat) :=
  if m.cfg.cellBits > bits then none
  else some ((readN m a (cellsOf m.cfg bits)).map (· % 2 ^ bits))

/-- `write_byte / write_halfword / write_word`; the caller passes a `UIntN`, i.e. `v < 2^bits`. -/
def write (m : Mem) (bits : Nat) (a : Int) (v : Nat) : Option (Mem × Option AddrErr) :=
  if m.cfg.cellBits > bits then none
  else some (writeN m a (cellsOf m.cfg bits) v)

/-- Keys of `_memory_repr(bits)` in first-seen order: `address - address % k` for each stored key. -/
def reprKeysAux (k : Int) : List Int → List Int → List Int
  | [],      acc => acc
  | a :: as, acc =>
    let al := a - a % k
    if al ∈ acc then reprKeysAux k as acc else reprKeysAux k as (acc ++ [al])

def reprKeys (m : Mem) (bits : Nat) : List Int :=
  reprKeysAux (cellsOf m.cfg bits) m.keys []

/-- The (aligned address, value) pairs `_memory_repr(bits)` formats; an access error inside
    `_memory_repr` propagates (possible only when the aligned address leaves the range). -/
def reprEntries (m : Mem) (bits : Nat) : Except AddrErr (List (Int × Nat)) :=
  (reprKeys m bits).foldr
    (fun a acc => match acc, readN m a (cellsOf m.cfg bits) with
      | .error e, _ => .error e
      | _, .error e => .error e
      | .ok l, .ok v => .ok ((a, v % 2 ^ bits) :: l))
    (.ok [])

end ArchSim.Mem
