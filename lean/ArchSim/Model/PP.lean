/-
The subset of pyparsing 3.3 the two assembler grammars use, as direct-style scanners over `List Char`:
whitespace skipping before every token (default white chars " \t\n\r"), `Literal`, `CaselessLiteral`,
`one_of` (a regex alternation, longest symbol first; `caseless=True` uses `re.IGNORECASE` and a parse
action that looks the matched text up in a table by `.lower()`), `Word`, `Combine` (adjacent tokens),
`Optional`, `MatchFirst` (`|`), `Or` (`^`, longest match, first on ties), `StringEnd`.
pyparsing's `And` does not backtrack; an exception that is not a `ParseException` (the `KeyError` of
the caseless `one_of` table on the letters ſ, İ, ı) aborts the whole `parse_string`.
Also the Python string helpers `str.splitlines`, `str.strip`, `int(text, base)`.
Import-free: compiled into the driver.
-/
namespace ArchSim.PP

abbrev Inp := List Char

inductive R (α : Type) where
  | fail                         -- `ParseException`
  | abort                        -- any other exception: propagates out of `parse_string`
  | ok (a : α) (rest : Inp)

def isWs (c : Char) : Bool := c = ' ' || c = '\t' || c = '\n' || c = '\r'
def skipWs (i : Inp) : Inp := i.dropWhile isWs

def R.bind {α β : Type} (r : R α) (f : α → Inp → R β) : R β :=
  match r with
  | .fail => .fail
  | .abort => .abort
  | .ok a rest => f a rest

def R.map {α β : Type} (f : α → β) : R α → R β
  | .fail => .fail
  | .abort => .abort
  | .ok a rest => .ok (f a) rest

/-- Does `p` match at the head of `i` (no whitespace skipping)? Returns the rest. -/
def stripPrefix (p : List Char) (i : Inp) : Option Inp :=
  match p, i with
  | [], i => some i
  | _ :: _, [] => none
  | a :: p', b :: i' => if a = b then stripPrefix p' i' else none

/-- `Literal(s)` -/
def lit (s : String) (i : Inp) : R Unit :=
  match stripPrefix s.toList (skipWs i) with
  | some rest => .ok () rest
  | none => .fail

/-- a literal inside a `Combine`: no whitespace skipping -/
def litAdj (s : String) (i : Inp) : R Unit :=
  match stripPrefix s.toList i with
  | some rest => .ok () rest
  | none => .fail

def isAlpha (c : Char) : Bool := ('a' ≤ c && c ≤ 'z') || ('A' ≤ c && c ≤ 'Z')
def isNum (c : Char) : Bool := '0' ≤ c && c ≤ '9'
def isHexNum (c : Char) : Bool := isNum c || ('a' ≤ c && c ≤ 'f') || ('A' ≤ c && c ≤ 'F')
def isAlnum (c : Char) : Bool := isAlpha c || isNum c

/-- `Word(init, body)` without whitespace skipping -/
def wordAdj (init body : Char → Bool) (i : Inp) : R String :=
  match i with
  | c :: cs => if init c then .ok (String.ofList (c :: cs.takeWhile body)) (cs.dropWhile body) else .fail
  | [] => .fail

def word (init body : Char → Bool) (i : Inp) : R String := wordAdj init body (skipWs i)

/-- Python `str.upper()` of a character when the result is a single ASCII character. -/
def upperAscii (c : Char) : Option Char :=
  if 'a' ≤ c && c ≤ 'z' then some (Char.ofNat (c.toNat - 32))
  else if c.toNat < 128 then some c
  else if c.toNat = 0x131 then some 'I'        -- ı
  else if c.toNat = 0x17F then some 'S'        -- ſ
  else none

/-- `CaselessLiteral(kw)`: `instring[loc:loc+len].upper() == kw.upper()`. (Characters whose upper
    case is longer than one character cannot produce any of the keywords used.) -/
def caselessLit (kw : String) (i : Inp) : R Unit :=
  let i := skipWs i
  let k := kw.toList
  let sl := i.take k.length
  if sl.length = k.length ∧ sl.map upperAscii = k.map (fun c => upperAscii c) then .ok () (i.drop k.length)
  else .fail

def toLowerAscii (c : Char) : Char := if 'A' ≤ c && c ≤ 'Z' then Char.ofNat (c.toNat + 32) else c

/-- `re.IGNORECASE` match of one input character against an ASCII pattern character. -/
def reCharMatch (p c : Char) : Bool :=
  let p := toLowerAscii p
  (c.toNat < 128 && toLowerAscii c = p) ||
  (p = 's' && c.toNat = 0x17F) || (p = 'k' && c.toNat = 0x212A) ||
  (p = 'i' && (c.toNat = 0x130 || c.toNat = 0x131))

def rePrefix (sym : List Char) (i : Inp) : Option (List Char × Inp) :=
  match sym, i with
  | [], i => some ([], i)
  | _ :: _, [] => none
  | p :: ps, c :: cs =>
    if reCharMatch p c then
      match rePrefix ps cs with
      | some (m, rest) => some (c :: m, rest)
      | none => none
    else none

/-- Does Python's `str.lower()` of the matched text give the (lower-case ASCII) symbol? False for
    ſ (lower ſ), İ (lower i̇), ı (lower ı); true for the Kelvin sign (lower k). -/
def lowersTo (m : List Char) : Bool :=
  m.all fun c => !(c.toNat = 0x17F || c.toNat = 0x130 || c.toNat = 0x131)

/-- Symbols sorted so that a symbol comes before its proper prefixes (what `one_of` does before
    building the regex); the first match of the alternation is then the longest matching symbol. -/
def longestFirst (syms : List String) : List String :=
  syms.mergeSort (fun a b => a.length ≥ b.length)

/-- `one_of(syms, caseless=True)`: returns the canonical symbol. -/
def oneOfCaseless (syms : List String) (i : Inp) : R String :=
  let i := skipWs i
  let rec go : List String → R String
    | [] => .fail
    | s :: ss =>
      match rePrefix s.toList i with
      | some (m, rest) => if lowersTo m then .ok s rest else .abort
      | none => go ss
  go (longestFirst syms)

/-- `one_of(syms)` (case sensitive). -/
def oneOf (syms : List String) (i : Inp) : R String :=
  let i := skipWs i
  let rec go : List String → R String
    | [] => .fail
    | s :: ss =>
      match stripPrefix s.toList i with
      | some rest => .ok s rest
      | none => go ss
  go (longestFirst syms)

/-- `Optional(p)` -/
def opt {α : Type} (p : Inp → R α) (i : Inp) : R (Option α) :=
  match p i with
  | .ok a rest => .ok (some a) rest
  | .fail => .ok none i
  | .abort => .abort

/-- `a | b | …` (MatchFirst) -/
def first {α : Type} : List (Inp → R α) → Inp → R α
  | [], _ => .fail
  | p :: ps, i =>
    match p i with
    | .ok a rest => .ok a rest
    | .abort => .abort
    | .fail => first ps i

/-- `a ^ b ^ …` (Or): every alternative is tried; an abort anywhere aborts; the longest match wins,
    the first one on ties. -/
def orLongest {α : Type} (ps : List (Inp → R α)) (i : Inp) : R α :=
  let rs := ps.map (fun p => p i)
  if rs.any (fun r => match r with | .abort => true | _ => false) then .abort
  else
    rs.foldl (fun best r =>
      match best, r with
      | .ok _ rb, .ok a ra => if ra.length < rb.length then .ok a ra else best
      | .ok _ _, _ => best
      | _, r => r) .fail

/-- `StringEnd()` -/
def atEnd (i : Inp) : Bool := (skipWs i).isEmpty

/-! ### Python string helpers -/

/-- `str.isspace()` for a single character. -/
def pyIsSpace (c : Char) : Bool :=
  let n := c.toNat
  (9 ≤ n && n ≤ 13) || (28 ≤ n && n ≤ 32) || n = 0x85 || n = 0xA0 || n = 0x1680 ||
  (0x2000 ≤ n && n ≤ 0x200A) || n = 0x2028 || n = 0x2029 || n = 0x202F || n = 0x205F || n = 0x3000

def pyStrip (l : List Char) : List Char :=
  ((l.dropWhile pyIsSpace).reverse.dropWhile pyIsSpace).reverse

/-- line boundaries of `str.splitlines()` -/
def isLineBreak (c : Char) : Bool :=
  let n := c.toNat
  n = 10 || n = 11 || n = 12 || n = 13 || n = 28 || n = 29 || n = 30 || n = 0x85 || n = 0x2028 || n = 0x2029

/-- `str.splitlines()`: "\r\n" counts once; no empty last line after a trailing break. -/
def splitLines (s : List Char) : List (List Char) :=
  -- `prevCR`: the previous character was a '\r' that already closed a line
  let rec go : List Char → Bool → List Char → List (List Char) → List (List Char)
    | [], _, cur, acc => if cur.isEmpty then acc.reverse else (cur.reverse :: acc).reverse
    | c :: cs, prevCR, cur, acc =>
      if c = '\n' && prevCR then go cs false cur acc
      else if isLineBreak c then go cs (c = '\r') [] (cur.reverse :: acc)
      else go cs false (c :: cur) acc
  go s false [] []

def digitVal (c : Char) : Option Nat :=
  if isNum c then some (c.toNat - 48)
  else if 'a' ≤ c && c ≤ 'f' then some (c.toNat - 87)
  else if 'A' ≤ c && c ≤ 'F' then some (c.toNat - 55)
  else none

def natOfDigits (base : Nat) (ds : List Char) : Option Nat :=
  ds.foldl (fun acc c => match acc, digitVal c with
    | some a, some d => if d < base then some (a * base + d) else none
    | _, _ => none) (some 0)

/-- `int(text, base=0)` restricted to the shapes the grammar lets through
    (`-?0x<hex>+`, `-?0b<bin>+`, `-?<dec>+`); `none` = `ValueError` (leading zeros on a non-zero
    decimal, or more than 4300 decimal digits). -/
def pyIntBase0 (s : String) : Option Int :=
  let (neg, body) : Bool × List Char := match s.toList with
    | '-' :: r => (true, r)
    | r => (false, r)
  let v : Option Nat :=
    match body with
    | '0' :: 'x' :: ds => if ds.isEmpty then none else natOfDigits 16 ds
    | '0' :: 'b' :: ds => if ds.isEmpty then none else natOfDigits 2 ds
    | ds =>
      if ds.isEmpty || ds.length > 4300 then none
      else match natOfDigits 10 ds with
        | none => none
        | some n => if ds.length > 1 && ds.head? = some '0' && n ≠ 0 then none else some n
  v.map fun n => if neg then -(n : Int) else (n : Int)

/-- `int(text)` (base 10) for a string of ASCII digits; `none` = `ValueError` (over 4300 digits). -/
def pyIntDec (s : String) : Option Int :=
  let ds := s.toList
  if ds.isEmpty || ds.length > 4300 then none else (natOfDigits 10 ds).map fun n => (n : Int)

end ArchSim.PP
