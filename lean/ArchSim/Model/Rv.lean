/-
Model of the RISC-V instruction layer:
  `isa/riscv/instruction_types.py`, `isa/riscv/rv32i_instructions.py` (both implementations of every
  instruction: `behavior()` for single-cycle mode, and the split
  `access_register_file / alu_compute / memory_access / write_back / control_unit_signals`
  used by the five-stage pipeline), `uarch/riscv/register_file.py`,
  `uarch/memory/instruction_memory.py`, `instruction_memory_cache_system.py`,
  and the `SingleStage` of `uarch/riscv/stages.py`.

Python `int` is `Int`, `fixedint.UInt32` values are naturals `< 2^32` produced by `wrapU`.
Import-free: compiled into the driver.
-/
import ArchSim.Model.Cache

namespace ArchSim.Rv
open ArchSim ArchSim.Cache

/-! ### fixedint idioms -/

/-- `int(fixedint.UInt32(x))` -/
def wrapU (x : Int) : Nat := (x % 4294967296).toNat
/-- `int(fixedint.Int32(x))` for a natural `x < 2^32` (also correct for any `x` after `wrapU`). -/
def toS (x : Nat) : Int := if x % 4294967296 < 2147483648 then (x % 4294967296 : Nat) else ((x % 4294967296 : Nat) : Int) - 4294967296
/-- `int(fixedint.Int32(x))` for an arbitrary Python int. -/
def wrapS (x : Int) : Int := toS (wrapU x)
/-- Sign extension of the low `bits` bits (used for `Int8(...)`, `Int16(...)`). -/
def sextBits (bits : Nat) (x : Nat) : Int :=
  let y := x % 2 ^ bits
  if y < 2 ^ (bits - 1) then (y : Int) else (y : Int) - (2 ^ bits : Nat)
/-- `int(a / b)` on Python ints: float division then truncation toward zero. For `|a|,|b| ≤ 2^31`
    the float quotient cannot round across an integer, so this is truncated integer division
    (argument in DESIGN.md §7; exercised on boundary operands by the correspondence check). -/
def pyTruncDiv (a b : Int) : Int := Int.tdiv a b

/-! ### Instructions -/

inductive Op where
  | add | sub | sll | slt | sltu | xor | srl | sra | or | and
  | addi | slti | sltiu | xori | ori | andi | slli | srli | srai
  | lb | lh | lw | lbu | lhu | jalr | ecall | ebreak
  | sb | sh | sw
  | beq | bne | blt | bge | bltu | bgeu
  | lui | auipc | jal | fence
  | csrrw | csrrs | csrrc | csrrwi | csrrsi | csrrci
  | mul | mulh | mulhu | mulhsu | div | divu | rem | remu
deriving Repr, DecidableEq, Inhabited

inductive Ty where
  | r | i | memI | shiftI | s | b | u | j | fence | csr | csri
deriving Repr, DecidableEq

def Op.ty : Op → Ty
  | .add | .sub | .sll | .slt | .sltu | .xor | .srl | .sra | .or | .and
  | .mul | .mulh | .mulhu | .mulhsu | .div | .divu | .rem | .remu => .r
  | .addi | .slti | .sltiu | .xori | .ori | .andi | .jalr | .ecall | .ebreak => .i
  | .slli | .srli | .srai => .shiftI
  | .lb | .lh | .lw | .lbu | .lhu => .memI
  | .sb | .sh | .sw => .s
  | .beq | .bne | .blt | .bge | .bltu | .bgeu => .b
  | .lui | .auipc => .u
  | .jal => .j
  | .fence => .fence
  | .csrrw | .csrrs | .csrrc => .csr
  | .csrrwi | .csrrsi | .csrrci => .csri

/-- An instruction object *after* its constructor ran: `imm` is the stored (sign-extended or
    masked) immediate. `aux` is `abs_addr` for `jal` and `csr` for the CSR forms (printing only). -/
structure Instr where
  op  : Op
  rd  : Nat := 0
  rs1 : Nat := 0
  rs2 : Nat := 0
  imm : Int := 0
  aux : Int := 0
deriving Repr, DecidableEq, Inhabited

/-- Constructor-time immediate normalisation: `(imm & (2^(n-1)-1)) - (imm & 2^(n-1))`. -/
def sextImm (n : Nat) (imm : Int) : Int :=
  imm % (2 : Int) ^ (n - 1) - (imm / (2 : Int) ^ (n - 1)) % 2 * (2 : Int) ^ (n - 1)

/-- What the Python constructors store for a raw immediate argument. -/
def storedImm (op : Op) (raw : Int) : Int :=
  match op.ty with
  | .i | .memI => if op = .ecall then 0 else if op = .ebreak then 1 else sextImm 12 raw
  | .shiftI => raw % 32
  | .s => sextImm 12 raw
  | .b => sextImm 13 raw
  | .u => sextImm 20 raw
  | .j => sextImm 21 raw
  | .csri => raw % 32
  | _ => 0

/-! ### Memory system of the state: flat or cached -/

inductive MemSys where
  | flat   (m : Mem.Mem)
  | cached (isLru : Bool) (s : DSys Repl.Pol)

structure MemOut where
  mem   : MemSys
  res   : Except Err Nat
  extra : Nat

def MemSys.read (ms : MemSys) (bits : Nat) (address : Int) (counted : Bool) : MemOut :=
  match ms with
  | .flat m =>
    match Mem.read m bits address with
    | none => { mem := ms, res := .error .unsupported, extra := 0 }
    | some r => { mem := ms, res := liftMem r, extra := 0 }
  | .cached l s =>
    let o := s.read (polOps l) bits address counted
    { mem := .cached l o.sys, res := o.res, extra := o.extra }

def MemSys.write (ms : MemSys) (bits : Nat) (address : Int) (v : Nat) (direct : Bool) : MemOut :=
  match ms with
  | .flat m =>
    match Mem.write m bits address v with
    | none => { mem := ms, res := .error .unsupported, extra := 0 }
    | some (m', some e) => { mem := .flat m', res := .error (.addr e.address), extra := 0 }
    | some (m', none) => { mem := .flat m', res := .ok 0, extra := 0 }
  | .cached l s =>
    let o := s.write (polOps l) bits address v direct
    { mem := .cached l o.sys, res := o.res, extra := o.extra }

def MemSys.reset : MemSys → MemSys
  | .flat m => .flat m.reset
  | .cached l s => .cached l (s.reset (polOps l))

/-- The lower (backing) memory, which the memory table displays. -/
def MemSys.backing : MemSys → Mem.Mem
  | .flat m => m
  | .cached _ s => s.mem

/-! ### Instruction memory (optionally cached) -/

structure ICache where
  isLru    : Bool
  geo      : Geo
  penalty  : Nat
  sets     : List (CSet Repl.Pol (Option Instr))    -- `none` = `EmptyInstruction`
  hits     : Nat
  accesses : Nat
  lastHit  : Bool

structure IMem where
  prog  : List Instr                -- instruction `k` lives at address `4*k` (after `write_instructions`)
  cache : Option ICache

def IMem.instrAt (im : IMem) (pc : Int) : Option Instr :=
  if 0 ≤ pc ∧ pc % 4 = 0 then im.prog[(pc / 4).toNat]? else none

def ICache.init (isLru : Bool) (g : Geo) (penalty : Nat) : ICache :=
  { isLru := isLru, geo := g, penalty := penalty, sets := initSets (polOps isLru) g,
    hits := 0, accesses := 0, lastHit := false }

/-- `InstructionMemoryCacheSystem.reset` (counters *are* cleared here, unlike the data cache). -/
def ICache.reset (c : ICache) : ICache := ICache.init c.isLru c.geo c.penalty

/-- `_read_block_from_memory` of the instruction cache. -/
def iBlockFromMem (im : IMem) (base : Nat) : (n i : Nat) → List (Option Instr)
  | 0,     _ => []
  | n + 1, i => im.instrAt ((base : Int) + 4 * i) :: iBlockFromMem im base n (i + 1)

structure FetchOut where
  imem  : IMem
  res   : Except Err (Option Instr)
  extra : Nat

/-- `read_instruction(address)` of either instruction memory system. -/
def IMem.fetch (im : IMem) (pc : Int) : FetchOut :=
  match im.cache with
  | none =>
    -- `_assert_address_in_range` then dict lookup
    if 0 ≤ pc ∧ pc < 16384 then
      match im.instrAt pc with
      | some i => { imem := im, res := .ok (some i), extra := 0 }
      | none => { imem := im, res := .error .policy, extra := 0 }     -- InstructionMemoryKeyError
    else { imem := im, res := .error (.addr pc), extra := 0 }
  | some c =>
    let d := decode c.geo.idxBits c.geo.blkBits pc
    let P := polOps c.isLru
    match readBlock P c.sets d with
    | .error e => { imem := im, res := .error e, extra := 0 }
    | .ok (sets1, some vals) =>
      let c' := { c with sets := sets1, accesses := c.accesses + 1, hits := c.hits + 1, lastHit := true }
      { imem := { im with cache := some c' }, res := .ok ((vals[d.blockOff]?).getD none), extra := 0 }
    | .ok (sets1, none) =>
      let vals := iBlockFromMem im d.blockBase c.geo.words 0
      match writeBlock P sets1 d vals with
      | .error e => { imem := im, res := .error e, extra := 0 }
      | .ok (sets2, _, _) =>
        let c' := { c with sets := sets2, accesses := c.accesses + 1, lastHit := false }
        { imem := { im with cache := some c' }, res := .ok ((vals[d.blockOff]?).getD none),
          extra := c.penalty }

/-! ### Architectural state -/

structure St where
  regs    : Nat → Nat
  pc      : Int
  mem     : MemSys
  imem    : IMem
  output  : String
  exitCode : Option Int
  cycles  : Nat
  instrs  : Nat         -- `instruction_count`
  branches : Nat
  procs   : Nat
  stalls  : Nat
  flushes : Nat

/-- `Registers.__setitem__`: only `0 < index < 32` is stored. -/
def setReg (regs : Nat → Nat) (rd : Nat) (v : Nat) : Nat → Nat :=
  fun r => if r = rd ∧ 0 < rd ∧ rd < 32 then v else regs r

def St.setReg (s : St) (rd : Nat) (v : Nat) : St := { s with regs := Rv.setReg s.regs rd v }

/-! ### ecall service (`ECALL.process_ecall`) -/

def hexDigit (d : Nat) : Char :=
  if d < 10 then Char.ofNat (48 + d) else Char.ofNat (55 + d)

def toDigitsRev (base : Nat) (hb : base ≥ 2) (n : Nat) : List Char :=
  if _h : n < base then [hexDigit n]
  else hexDigit (n % base) :: toDigitsRev base hb (n / base)
termination_by n
decreasing_by exact Nat.div_lt_self (by omega) (by omega)

/-- `"{:X}".format(n)`, `bin(n)[2:]`, `str(n)` for naturals. -/
def natToBase (base : Nat) (hb : base ≥ 2) (n : Nat) : String := String.ofList (toDigitsRev base hb n).reverse

def intToDec (x : Int) : String :=
  if x < 0 then "-" ++ natToBase 10 (by decide) x.natAbs else natToBase 10 (by decide) x.natAbs

inductive EcallRes where
  | out (s : String)
  | exit (code : Int)
  | err (e : Err)                -- memory error inside print-string
  | invalid (code : Nat)         -- `ValueError(... is not a valid code for ECALL)`

/-- The print-string loop: `while (byte := read_byte(address, False)) != 0: …`.
    `fuel` bounds the iterations; `2^32 + 1` always suffices (the address either meets a zero byte
    or wraps into the unmapped range below the data segment and raises). -/
def printStrLoop : (fuel : Nat) → MemSys → Int → List Char → MemSys × Except Err (List Char)
  | 0, ms, _, _ => (ms, .error .policy)
  | fuel + 1, ms, a, acc =>
    let o := ms.read 8 a false
    match o.res with
    | .error e => (o.mem, .error e)
    | .ok b =>
      if b = 0 then (o.mem, .ok acc.reverse)
      else printStrLoop fuel o.mem (a + 1) (Char.ofNat (b % 128) :: acc)

def printStrFuel : Nat := 4294967297

/-- Marker the harness replaces by Python's `str(struct.unpack('>f', …))` (not modelled). -/
def floatMarker (bits : Nat) : String := "<f32:" ++ toString bits ++ ">"

/-- Returns the memory system too: print-string reads through the cache (uncounted). -/
def processEcall (s : St) : MemSys × EcallRes :=
  let code := s.regs 17
  let arg := s.regs 10
  if code = 1 then (s.mem, .out (intToDec (toS arg)))
  else if code = 2 then (s.mem, .out (floatMarker arg))
  else if code = 4 then
    match printStrLoop printStrFuel s.mem arg [] with
    | (m, .ok cs) => (m, .out (String.ofList cs))
    | (m, .error e) => (m, .err e)
  else if code = 11 then (s.mem, .out (String.ofList [Char.ofNat (arg % 128)]))
  else if code = 34 then (s.mem, .out ("0x" ++ natToBase 16 (by decide) arg))
  else if code = 35 then (s.mem, .out ("0b" ++ natToBase 2 (by decide) arg))
  else if code = 36 then (s.mem, .out (natToBase 10 (by decide) arg))
  else if code = 10 then (s.mem, .exit 0)
  else if code = 93 then (s.mem, .exit arg)
  else (s.mem, .invalid code)

/-! ### `behavior()` : single-cycle semantics -/

inductive Fault where
  | mem (e : Err)
  | ecallCode (code : Nat)
  | notImplemented            -- `InstructionNotImplemented` (ebreak, fence)
  | unmodelled                -- CSR instructions: outside the model (see DESIGN.md §7)
deriving Repr, DecidableEq

/-- ALU function of the register-register and register-immediate forms, on `UInt32` values. -/
def aluRR (op : Op) (a b : Nat) : Nat :=
  match op with
  | .add  => (a + b) % 4294967296
  | .sub  => wrapU ((a : Int) - b)
  | .sll  => (a * 2 ^ (b % 32)) % 4294967296
  | .slt  => if toS a < toS b then 1 else 0
  | .sltu => if a < b then 1 else 0
  | .xor  => a ^^^ b
  | .srl  => a / 2 ^ (b % 32)
  | .sra  => wrapU (toS a / (2 : Int) ^ (b % 32))
  | .or   => a ||| b
  | .and  => a &&& b
  | .mul  => (a * b) % 4294967296
  | .mulh => wrapU ((toS a * toS b) / 4294967296)
  | .mulhu => (a * b) / 4294967296
  | .mulhsu => wrapU ((toS a * (b : Int)) / 4294967296)
  | .div  => if b = 0 then 4294967295 else wrapU (pyTruncDiv (toS a) (toS b))
  | .divu => if b = 0 then 4294967295 else a / b
  | .rem  => if b = 0 then a else wrapU (toS a - pyTruncDiv (toS a) (toS b) * toS b)
  | .remu => if b = 0 then a else a % b
  | _ => 0

/-- The register-immediate forms (`imm` is the stored immediate). -/
def aluRI (op : Op) (a : Nat) (imm : Int) : Nat :=
  match op with
  | .addi  => (a + wrapU imm) % 4294967296
  | .slti  => if toS a < wrapS imm then 1 else 0
  | .sltiu => if a < wrapU imm then 1 else 0
  | .xori  => a ^^^ wrapU imm
  | .ori   => a ||| wrapU imm
  | .andi  => a &&& wrapU imm
  | .slli  => (a * 2 ^ (wrapU imm)) % 4294967296
  | .srli  => a / 2 ^ (wrapU imm)
  | .srai  => wrapU (toS a / (2 : Int) ^ ((imm % 65536).toNat))
  | _ => 0

def branchCond (op : Op) (a b : Nat) : Bool :=
  match op with
  | .beq  => a == b
  | .bne  => a != b
  | .blt  => decide (toS a < toS b)
  | .bge  => decide (toS a ≥ toS b)
  | .bltu => decide (a < b)
  | .bgeu => decide (a ≥ b)
  | _ => false

def accessBits (op : Op) : Nat :=
  match op with
  | .lb | .lbu | .sb => 8
  | .lh | .lhu | .sh => 16
  | _ => 32

/-- What a load writes to `rd` given the value read from memory. -/
def loadExt (op : Op) (v : Nat) : Nat :=
  match op with
  | .lb => wrapU (sextBits 8 v)
  | .lh => wrapU (sextBits 16 v)
  | _ => v

/-- Result of `behavior()`: the state afterwards (also when it raised; Python mutates in place). -/
structure BehOut where
  st    : St
  fault : Option Fault

def behavior (i : Instr) (s : St) : BehOut :=
  let a := s.regs i.rs1
  let b := s.regs i.rs2
  match i.op.ty with
  | .r => { st := s.setReg i.rd (aluRR i.op a b), fault := none }
  | .shiftI => { st := s.setReg i.rd (aluRI i.op a i.imm), fault := none }
  | .memI =>
    let o := s.mem.read (accessBits i.op) ((a : Int) + i.imm) true
    let s1 := { s with mem := o.mem, cycles := s.cycles + o.extra }
    match o.res with
    | .error e => { st := s1, fault := some (.mem e) }
    | .ok v => { st := s1.setReg i.rd (loadExt i.op v), fault := none }
  | .s =>
    let addr : Int := ((a + wrapU i.imm) % 4294967296 : Nat)
    let v := b % 2 ^ accessBits i.op
    let o := s.mem.write (accessBits i.op) addr v false
    let s1 := { s with mem := o.mem, cycles := s.cycles + o.extra }
    match o.res with
    | .error e => { st := s1, fault := some (.mem e) }
    | .ok _ => { st := s1, fault := none }
  | .b =>
    if branchCond i.op a b then
      { st := { s with pc := s.pc + (i.imm - 4), branches := s.branches + 1 }, fault := none }
    else { st := s, fault := none }
  | .u =>
    if i.op = .lui then { st := s.setReg i.rd (wrapU (i.imm * 4096)), fault := none }
    else { st := s.setReg i.rd (wrapU (s.pc + i.imm * 4096)), fault := none }
  | .j =>
    let s1 := s.setReg i.rd (wrapU (s.pc + 4))
    { st := { s1 with pc := s1.pc + (i.imm - 4), procs := s1.procs + 1 }, fault := none }
  | .i =>
    if i.op = .jalr then
      let t := wrapU (toS a + sextBits 16 (wrapU i.imm))
      let s1 := s.setReg i.rd (wrapU (s.pc + 4))
      { st := { s1 with pc := ((t - t % 2 : Nat) : Int) - 4 }, fault := none }
    else if i.op = .ecall then
      match processEcall s with
      | (m, .out str) => { st := { s with mem := m, output := s.output ++ str }, fault := none }
      | (m, .exit c) => { st := { s with mem := m, exitCode := some c }, fault := none }
      | (m, .err e) => { st := { s with mem := m }, fault := some (.mem e) }
      | (m, .invalid c) => { st := { s with mem := m }, fault := some (.ecallCode c) }
    else if i.op = .ebreak then { st := s, fault := some .notImplemented }
    else { st := s.setReg i.rd (aluRI i.op a i.imm), fault := none }
  | .fence => { st := s, fault := some .notImplemented }
  | .csr | .csri => { st := s, fault := some .unmodelled }

/-! ### Split implementation used by the five-stage pipeline -/

/-- `control_unit_signals()`; `none` = Python `None`. -/
structure Ctl where
  aluSrc1 : Option Bool := none
  aluSrc2 : Option Bool := none
  wbSrc   : Option Nat := none
  regWrite : Option Bool := none
  memRead : Option Bool := none
  memWrite : Option Bool := none
  branch  : Option Bool := none
  jump    : Option Bool := none
  aluOp   : Option Nat := none
  aluToPc : Option Bool := none
deriving Repr, DecidableEq, Inhabited

def ctlOf (i : Instr) : Ctl :=
  match i.op.ty with
  | .r => { aluSrc1 := some true, aluSrc2 := some false, wbSrc := some 2, regWrite := some true,
            memRead := some false, memWrite := some false, branch := some false, jump := some false,
            aluOp := some 2, aluToPc := some false }
  | .i | .shiftI =>
    if i.op = .jalr then
      { aluSrc1 := some true, aluSrc2 := some true, wbSrc := some 0, regWrite := some true,
        memRead := some false, memWrite := some false, branch := some false, jump := some false,
        aluOp := none, aluToPc := some true }
    else
      { aluSrc1 := some true, aluSrc2 := some true, wbSrc := some 2, regWrite := some true,
        memRead := some false, memWrite := some false, branch := some false, jump := some false,
        aluOp := some 2, aluToPc := some false }
  | .memI => { aluSrc1 := some true, aluSrc2 := some true, wbSrc := some 1, regWrite := some true,
               memRead := some true, memWrite := some false, branch := some false, jump := some false,
               aluOp := some 0, aluToPc := some false }
  | .s => { aluSrc1 := some true, aluSrc2 := some true, wbSrc := none, regWrite := some false,
            memRead := some false, memWrite := some true, branch := some false, jump := some false,
            aluOp := some 0, aluToPc := some false }
  | .b => { aluSrc1 := some true, aluSrc2 := some false, wbSrc := none, regWrite := some false,
            memRead := some false, memWrite := some false, branch := some true, jump := some false,
            aluOp := some 1, aluToPc := some false }
  | .u =>
    if i.op = .lui then
      { aluSrc1 := none, aluSrc2 := none, wbSrc := some 3, regWrite := some true,
        memRead := some false, memWrite := some false, branch := some false, jump := some false,
        aluOp := none, aluToPc := some false }
    else
      { aluSrc1 := some false, aluSrc2 := some true, wbSrc := some 2, regWrite := some true,
        memRead := some false, memWrite := some false, branch := some false, jump := some false,
        aluOp := none, aluToPc := some false }
  | .j => { aluSrc1 := none, aluSrc2 := none, wbSrc := some 0, regWrite := some true,
            memRead := some false, memWrite := some false, branch := some false, jump := some true,
            aluOp := none, aluToPc := some false }
  | .fence | .csr | .csri => {}

/-- `access_register_file`: (read addr 1, read addr 2, data 1, data 2, imm). -/
structure RegRead where
  a1 : Option Nat := none
  a2 : Option Nat := none
  d1 : Option Int := none
  d2 : Option Int := none
  imm : Option Int := none
deriving Repr, DecidableEq, Inhabited

def accessRegs (i : Instr) (regs : Nat → Nat) : RegRead :=
  match i.op.ty with
  | .r => { a1 := some i.rs1, a2 := some i.rs2, d1 := some (regs i.rs1 : Int), d2 := some (regs i.rs2 : Int) }
  | .i | .shiftI | .memI =>
    { a1 := some i.rs1, d1 := some (regs i.rs1 : Int), imm := some i.imm }
  | .s =>
    { a1 := some i.rs1, a2 := some i.rs2, d1 := some (regs i.rs1 : Int),
      d2 := some ((regs i.rs2 % 2 ^ accessBits i.op : Nat) : Int), imm := some i.imm }
  | .b =>
    { a1 := some i.rs1, a2 := some i.rs2, d1 := some (regs i.rs1 : Int), d2 := some (regs i.rs2 : Int),
      imm := some i.imm }
  | .u => { imm := some (i.imm * 4096) }
  | .j => { imm := some i.imm }
  | .fence | .csr | .csri => {}

/-- `get_write_register()` -/
def writeReg (i : Instr) : Option Nat :=
  match i.op.ty with
  | .r | .i | .shiftI | .memI | .u | .j => some i.rd
  | _ => none

/-- `alu_compute(alu_in_1, alu_in_2)`: (comparison, result). `none` result of the function =
    a Python `AssertionError`/`TypeError` on a `None` input (unreachable in the pipeline). -/
def aluCompute (i : Instr) (x y : Option Int) : Option (Option Bool × Option Int) :=
  match i.op.ty with
  | .r =>
    match x, y with
    | some a, some b =>
      -- operands are re-wrapped by the `fixedint` constructors; some results stay Python ints
      let ua := wrapU a; let ub := wrapU b
      match i.op with
      | .mulh => some (none, some ((toS ua * toS ub) / 4294967296))
      | .mulhu => some (none, some ((a * b) / 4294967296))
      | .mulhsu => some (none, some ((toS ua * b) / 4294967296))
      | .div => some (none, some (if toS ub = 0 then -1 else pyTruncDiv (toS ua) (toS ub)))
      | .divu => some (none, some (if ub = 0 then -1 else (ua / ub : Nat)))
      | .rem => some (none, some (if toS ub = 0 then toS ua else toS ua - pyTruncDiv (toS ua) (toS ub) * toS ub))
      | .sra => some (none, some (toS ua / (2 : Int) ^ (ub % 32)))
      | op => some (none, some (aluRR op ua ub : Nat))
    | _, _ => none
  | .shiftI =>
    match x, y with
    | some a, some b =>
      let ua := wrapU a
      match i.op with
      | .srai => if b < 0 then none else some (none, some (toS ua / (2 : Int) ^ b.toNat))
      | .slli => some (none, some (((ua * 2 ^ (wrapU b)) % 4294967296 : Nat) : Int))
      | _ => some (none, some ((ua / 2 ^ (wrapU b) : Nat) : Int))
    | _, _ => none
  | .memI =>
    match x, y with
    | some a, some b => some (none, some ((wrapU a : Int) + b))
    | _, _ => none
  | .i =>
    if i.op = .ecall then some (none, some 0)
    else if i.op = .ebreak then some (none, none)
    else match x, y with
      | some a, some b =>
        if i.op = .jalr then
          -- `int(fixedint.UInt32(alu_in_1 + alu_in_2)) & (~1)`
          let t := wrapU (a + b)
          some (none, some ((t - t % 2 : Nat) : Int))
        else if i.op = .slti then some (none, some (if wrapS a < wrapS b then 1 else 0))
        else some (none, some (aluRI i.op (wrapU a) b : Nat))
      | _, _ => none
  | .s =>
    match x, y with
    | some a, some b => some (none, some (a + b))
    | _, _ => some (none, none)
  | .b =>
    match x, y with
    | some a, some b =>
      match i.op with
      | .beq => some (some (a == b), none)
      | .bne => some (some (a != b), none)
      | .blt => some (some (decide (wrapS a < wrapS b)), none)
      | .bge => some (some (decide (wrapS a ≥ wrapS b)), none)
      | .bltu => some (some (decide (a < b)), none)
      | _ => some (some (decide (a ≥ b)), none)
    | _, _ => none
  | .u =>
    if i.op = .lui then some (none, none)
    else match x, y with
      | some a, some b => some (none, some (a + b))
      | _, _ => none
  | .j | .fence | .csr | .csri => some (none, none)

/-- `memory_access(memory_address, memory_write_data, state, update_statistics)`:
    returns the memory system, the added cycles, and the read data (or the fault). -/
structure MaOut where
  mem   : MemSys
  extra : Nat
  res   : Except Err (Option Int)

def memoryAccess (i : Instr) (addr wdata : Option Int) (ms : MemSys) (counted : Bool) : Option MaOut :=
  match i.op.ty with
  | .memI =>
    match addr with
    | none => none      -- `assert memory_address is not None`
    | some a =>
      let o := ms.read (accessBits i.op) a counted
      some { mem := o.mem, extra := o.extra,
             res := match o.res with
               | .error e => .error e
               | .ok v => .ok (some (match i.op with
                   | .lb => sextBits 8 v
                   | .lh => sextBits 16 v
                   | _ => (v : Int))) }
  | .s =>
    match addr, wdata with
    | some a, some w =>
      let o := ms.write (accessBits i.op) a ((w % (2 : Int) ^ accessBits i.op).toNat) (!counted)
      some { mem := o.mem, extra := o.extra,
             res := match o.res with
               | .error e => .error e
               | .ok _ => .ok none }
    | _, _ => some { mem := ms, extra := 0, res := .ok none }
  | _ => some { mem := ms, extra := 0, res := .ok none }

/-- `write_back(write_register, register_write_data, state)`; `none` = a failed `assert`. -/
def writeBack (i : Instr) (wr : Option Nat) (data : Option Int) (regs : Nat → Nat) : Option (Nat → Nat) :=
  match i.op.ty with
  | .r | .i | .shiftI | .memI | .u | .j =>
    match wr, data with
    | some r, some d => some (setReg regs r (wrapU d))
    | _, _ => none
  | _ => some regs

/-! ### Printed form (`__repr__`) -/

def Op.mnemonic : Op → String
  | .add => "add" | .sub => "sub" | .sll => "sll" | .slt => "slt" | .sltu => "sltu" | .xor => "xor"
  | .srl => "srl" | .sra => "sra" | .or => "or" | .and => "and"
  | .addi => "addi" | .slti => "slti" | .sltiu => "sltiu" | .xori => "xori" | .ori => "ori"
  | .andi => "andi" | .slli => "slli" | .srli => "srli" | .srai => "srai"
  | .lb => "lb" | .lh => "lh" | .lw => "lw" | .lbu => "lbu" | .lhu => "lhu" | .jalr => "jalr"
  | .ecall => "ecall" | .ebreak => "ebreak" | .sb => "sb" | .sh => "sh" | .sw => "sw"
  | .beq => "beq" | .bne => "bne" | .blt => "blt" | .bge => "bge" | .bltu => "bltu" | .bgeu => "bgeu"
  | .lui => "lui" | .auipc => "auipc" | .jal => "jal" | .fence => "fence"
  | .csrrw => "csrrw" | .csrrs => "csrrs" | .csrrc => "csrrc"
  | .csrrwi => "csrrwi" | .csrrsi => "csrrsi" | .csrrci => "csrrci"
  | .mul => "mul" | .mulh => "mulh" | .mulhu => "mulhu" | .mulhsu => "mulhsu"
  | .div => "div" | .divu => "divu" | .rem => "rem" | .remu => "remu"

def allOps : List Op :=
  [.add, .sub, .sll, .slt, .sltu, .xor, .srl, .sra, .or, .and,
   .addi, .slti, .sltiu, .xori, .ori, .andi, .slli, .srli, .srai,
   .lb, .lh, .lw, .lbu, .lhu, .jalr, .ecall, .ebreak, .sb, .sh, .sw,
   .beq, .bne, .blt, .bge, .bltu, .bgeu, .lui, .auipc, .jal, .fence,
   .csrrw, .csrrs, .csrrc, .csrrwi, .csrrsi, .csrrci,
   .mul, .mulh, .mulhu, .mulhsu, .div, .divu, .rem, .remu]

def Op.ofMnemonic (s : String) : Option Op := allOps.find? (fun o => o.mnemonic == s)

/-- Python `hex(n)` for a non-negative csr number (lower-case digits). -/
def hexLower (n : Nat) : String :=
  String.ofList ((natToBase 16 (by decide) n).toList.map Char.toLower)

def Instr.repr (i : Instr) : String :=
  let m := i.op.mnemonic
  let x (n : Nat) := "x" ++ toString n
  match i.op.ty with
  | .r => s!"{m} {x i.rd}, {x i.rs1}, {x i.rs2}"
  | .i =>
    if i.op = .ecall ∨ i.op = .ebreak then m
    else s!"{m} {x i.rd}, {x i.rs1}, {intToDec i.imm}"
  | .shiftI => s!"{m} {x i.rd}, {x i.rs1}, {intToDec i.imm}"
  | .memI => s!"{m} {x i.rd}, {intToDec i.imm}({x i.rs1})"
  | .s => s!"{m} {x i.rs2}, {intToDec i.imm}({x i.rs1})"
  | .b => s!"{m} {x i.rs1}, {x i.rs2}, {intToDec i.imm}"
  | .u => s!"{m} {x i.rd}, {intToDec i.imm}"
  | .j => s!"{m} {x i.rd}, {intToDec i.aux}"
  | .fence => "fence"      -- the dataclass repr of FENCE is not an assembler form (C14 excludes it)
  | .csr => s!"{m} {x i.rd}, 0x{hexLower i.aux.toNat}, {x i.rs1}"
  | .csri => s!"{m} {x i.rd}, 0x{hexLower i.aux.toNat}, {intToDec i.imm}"

/-! ### `SingleStage.behavior` : one single-cycle step -/

structure StepOut where
  st    : St
  fault : Option (Int × Fault)     -- (address of the faulting instruction, fault)

/-- One `Pipeline.step()` in single-stage mode (the `cycles += 1` of `Pipeline.step` included). -/
def singleStep (s : St) : StepOut :=
  let s0 := { s with cycles := s.cycles + 1 }
  match s0.imem.instrAt s0.pc with
  | none => { st := s0, fault := none }
  | some _ =>
    let s1 := { s0 with instrs := s0.instrs + 1 }
    let f := s1.imem.fetch s1.pc
    let s2 := { s1 with imem := f.imem, cycles := s1.cycles + f.extra }
    match f.res with
    | .error e => { st := s2, fault := some (s2.pc, .mem e) }     -- unreachable: an instruction exists at pc
    | .ok none => { st := s2, fault := some (s2.pc, .notImplemented) }  -- an `EmptyInstruction` cannot be fetched at an occupied pc
    | .ok (some i) =>
      let addr := s2.pc
      -- visualisation values computed *before* `behavior`: only the load address matters below
      let rr := accessRegs i s2.regs
      let b := behavior i s2
      match b.fault with
      | some ft => { st := b.st, fault := some (addr, ft) }
      | none =>
        -- loads: a second, uncounted read for display
        let s3 : St × Option Fault :=
          if i.op.ty = .memI then
            let la : Option Int := match rr.d1, rr.imm with
              | some d, some im => some ((wrapU d : Int) + im)
              | _, _ => none
            match memoryAccess i la none b.st.mem false with
            | none => (b.st, some (.mem .policy))
            | some o =>
              let st' := { b.st with mem := o.mem, cycles := b.st.cycles + o.extra }
              match o.res with
              | .error e => (st', some (.mem e))
              | .ok _ => (st', none)
          else (b.st, none)
        match s3 with
        | (st', some ft) => { st := st', fault := some (addr, ft) }
        | (st', none) => { st := { st' with pc := (st'.pc + 4) % 4294967296 }, fault := none }

/-- `pipeline.is_done()` in single-stage mode: the single latch is excluded by `[:-1]`. -/
def singleDone (s : St) : Bool := s.exitCode.isSome || (s.imem.instrAt s.pc).isNone

end ArchSim.Rv
