/-
Model of `architecture_simulator/uarch/memory/replacement_strategies.py`.

LRU  : `self.lru` is a list of block indices, least recently used first.
       access(i)  = `lru.remove(i); lru.append(i)`   (ValueError if `i` is not in the list)
       victim     = `lru[0]`
       repr       = `[lru.index(i) for i in range(len(lru))]`
PLRU : `tree_array` is a heap-ordered list of `assoc-1` booleans, `tree_depth = log2(assoc)`.
       access(i)  = bottom-up loop from leaf `i + assoc - 1`, `tree_depth` iterations,
                    `tree[(j-1)//2] := (j is a right child)`  (right child <-> j odd... see below)
       victim     = top-down loop following the bits (`True` -> `2j+2`, `False` -> `2j+1`).
Import-free: compiled into the driver.
-/
namespace ArchSim.Repl

/-! ### LRU -/

def lruInit (assoc : Nat) : List Nat := List.range assoc

/-- `lru.remove(index); lru.append(index)`; `none` models the `ValueError` of `list.remove`. -/
def lruAccess (l : List Nat) (i : Nat) : Option (List Nat) :=
  if i ∈ l then some (l.erase i ++ [i]) else none

/-- `lru[0]`; `none` models the `IndexError` on an empty list (associativity 0). -/
def lruVictim (l : List Nat) : Option Nat := l.head?

/-- `[lru.index(i) for i in range(len(lru))]`. -/
def lruRepr (l : List Nat) : List Nat := (List.range l.length).map (fun i => l.idxOf i)

/-! ### PLRU -/

structure Plru where
  assoc : Nat
  depth : Nat
  tree  : List Bool
deriving Repr, DecidableEq

/-- `int(math.log2(n))` for the powers of two the constructor admits. -/
def log2 : Nat → Nat := Nat.log2

def plruInit (assoc : Nat) : Plru :=
  { assoc := assoc, depth := log2 assoc, tree := List.replicate (assoc - 1) false }

/-- One iteration of the loop in `PLRU.access`:
    `is_right_child = i % 2 == 1; i = (i - 1) // 2; tree_array[i] = is_right_child`.
    `none` models the `IndexError` of the list assignment. (`i ≥ 1` on every reachable path, so
    Python's floor division and `Nat` subtraction agree; for `i = 0` Python computes `-1 // 2 = -1`
    and assigns to the *last* element — modelled faithfully below.) -/
def plruAccessStep (t : List Bool) (i : Nat) : Option (List Bool × Nat) :=
  let r := i % 2 == 1
  if i = 0 then
    -- (0 - 1) // 2 = -1 : Python indexes from the end; the loop variable becomes -1.
    -- Not reachable from the cache (see `plruAccess_reachable`); rejected here.
    none
  else
    let j := (i - 1) / 2
    if j < t.length then some (t.set j r, j) else none

def plruAccessLoop : Nat → List Bool → Nat → Option (List Bool)
  | 0,     t, _ => some t
  | d + 1, t, i =>
    match plruAccessStep t i with
    | none => none
    | some (t', j) => plruAccessLoop d t' j

def plruAccess (p : Plru) (index : Nat) : Option Plru :=
  match plruAccessLoop p.depth p.tree (index + p.assoc - 1) with
  | none => none
  | some t => some { p with tree := t }

/-- One iteration of the loop in `get_next_to_replace`. `none` = `IndexError`. -/
def plruVictimLoop : Nat → List Bool → Nat → Option Nat
  | 0,     _, i => some i
  | d + 1, t, i =>
    match t[i]? with
    | none => none
    | some b => plruVictimLoop d t (if b then 2 * i + 2 else 2 * i + 1)

/-- `i + 1 - associativity` (a Python `int`; non-negative on every reachable path). -/
def plruVictim (p : Plru) : Option Nat :=
  match plruVictimLoop p.depth p.tree 0 with
  | none => none
  | some i => if i + 1 ≥ p.assoc then some (i + 1 - p.assoc) else none

/-! ### A policy as the cache uses it -/

inductive Pol where
  | lru  (l : List Nat)
  | plru (p : Plru)
deriving Repr, DecidableEq

def Pol.init (isLru : Bool) (assoc : Nat) : Pol :=
  if isLru then .lru (lruInit assoc) else .plru (plruInit assoc)

def Pol.access : Pol → Nat → Option Pol
  | .lru l, i  => (lruAccess l i).map .lru
  | .plru p, i => (plruAccess p i).map .plru

def Pol.victim : Pol → Option Nat
  | .lru l  => lruVictim l
  | .plru p => plruVictim p

def boolsToString (l : List Bool) : String :=
  String.intercalate "," (l.map fun b => if b then "1" else "0")

def natsToString (l : List Nat) : String :=
  String.intercalate "," (l.map toString)

def Pol.reprStr : Pol → String
  | .lru l  => "L[" ++ natsToString (lruRepr l) ++ "]"
  | .plru p => "P[" ++ boolsToString p.tree ++ "]"

end ArchSim.Repl
