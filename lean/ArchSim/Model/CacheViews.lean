/-
Model of the CACHE TABLES the simulator shows:
  `RiscvSimulation.get_data_cache_entries()`         = `BaseCacheMemorySystem.cache_repr()`        → `dataCacheTable`
  `RiscvSimulation.get_instruction_cache_entries()`  = `InstructionMemoryCacheSystem.cache_repr()` → `instrCacheTable`
i.e. `Cache.get_repr()` → `CacheSetRepr` → `CacheBlockRepr` of `uarch/memory/cache.py`, and `get_repr()` of the two
replacement strategies.  The driver renders these structures to text; the theorems of `Props/C12Views.lean` speak about
them.  Import-free apart from the other model files: compiled into the driver.
-/
import ArchSim.Model.SimViews

namespace ArchSim.CacheViews
open ArchSim ArchSim.Cache

/-- `to_hex_str(number, n)`: `"{:0⌈n/4⌉X}".format(number)` — `n` counts BITS. -/
def toHexStr (number n : Nat) : String := Views.upHex ((n + 3) / 4) number

/-- `DecodedAddress.num_tag_bits` -/
def tagBits (g : Geo) : Nat := 32 - (g.idxBits + g.blkBits + 2)

/-- `CacheBlockRepr`: valid and dirty bit as `"0"`/`"1"`, the (address, value) cells, the tag text. -/
structure BlockRow where
  valid : String
  dirty : String
  cells : List (String × String)
  tag   : String
deriving Repr, DecidableEq

def bitStr (b : Bool) : String := if b then "1" else "0"

/-- A valid block lists, for word `i`, the address `base + 4 i` as 8 hex digits and `str(value)`; an invalid
    block lists `block_size` pairs of empty strings.  The tag is `0x` + hex digits of the tag; for an invalid block it
    is `num_tag_bits` SPACES of the block's own decoded address — a block is only ever invalid while it has never been
    written, and then it still carries the default `DecodedAddress(0, 0, 0)`, whose tag has 30 bits: always 30 spaces,
    whatever the geometry. -/
def blockRow {α : Type} (g : Geo) (showVal : α → String) (w : Way α) : BlockRow :=
  { valid := bitStr w.valid
    dirty := bitStr w.dirty
    cells := if w.valid then w.vals.mapIdx (fun i v => (toHexStr (w.base + i * 4) 32, showVal v))
             else List.replicate (2 ^ g.blkBits) ("", "")
    tag   := if w.valid then "0x" ++ toHexStr w.tag (tagBits g)
             else String.ofList (List.replicate 30 ' ') }

/-- `ReplacementStrategy.get_repr()`: LRU — the age rank of every way; PLRU — the tree bits. -/
inductive Status where
  | lru  (ages : List Nat)
  | plru (bits : List Bool)
deriving Repr, DecidableEq

def statusOf : Repl.Pol → Status
  | .lru l  => .lru (Repl.lruRepr l)
  | .plru p => .plru p.tree

/-- `CacheSetRepr`: the index text `"0x" + to_hex_str(i, num_index_bits)`, the blocks, the replacement status. -/
structure SetRow where
  index  : String
  blocks : List BlockRow
  status : Status
deriving Repr, DecidableEq

def setRow {α : Type} (g : Geo) (showVal : α → String) (k : Nat) (cs : CSet Repl.Pol α) : SetRow :=
  { index := "0x" ++ toHexStr k g.idxBits
    blocks := cs.ways.map (blockRow g showVal)
    status := statusOf cs.pol }

/-- `Cache.get_repr()` -/
def cacheTable {α : Type} (g : Geo) (showVal : α → String) (sets : List (CSet Repl.Pol α)) : List SetRow :=
  sets.mapIdx (fun k cs => setRow g showVal k cs)

/-- `str(UInt32)` -/
def showWord (v : Nat) : String := String.ofList (Fmt.natStr 10 v)

/-- `str(instruction)`; an `EmptyInstruction` (hole behind the end of the program) prints as the empty string. -/
def showInstr : Option Rv.Instr → String
  | some i => i.repr
  | none => ""

/-- `get_data_cache_entries()`: `None` without a data cache. -/
def dataCacheTable : Rv.MemSys → Option (List SetRow)
  | .flat _ => none
  | .cached _ s => some (cacheTable s.geo showWord s.sets)

/-- `get_instruction_cache_entries()`: `None` without an instruction cache. -/
def instrCacheTable (im : Rv.IMem) : Option (List SetRow) :=
  match im.cache with
  | none => none
  | some c => some (cacheTable c.geo showInstr c.sets)

end ArchSim.CacheViews
