/-
Model of `util/integer_representations.py`: `(bin, udec, hex, sdec)` strings of an n-bit value.
Import-free: compiled into the driver.
-/
namespace ArchSim.Fmt

def digitChar (d : Nat) : Char :=
  if d < 10 then Char.ofNat (48 + d) else Char.ofNat (55 + d)

/-- Digits of `n` in `base`, least significant first; `[]` for 0. -/
def digitsRev (base : Nat) : (fuel : Nat) → Nat → List Nat
  | 0, _ => []
  | fuel + 1, n => if n = 0 then [] else (n % base) :: digitsRev base fuel (n / base)

/-- Python `format(n, 'b' | 'X' | 'd')` for a natural number, as a list of characters. -/
def natStr (base : Nat) (n : Nat) : List Char :=
  if n = 0 then ['0'] else ((digitsRev base (n + 1) n).reverse.map digitChar)

/-- Zero padding on the left to at least `w` characters (`"{:0w…}"`). -/
def padLeft (w : Nat) (s : List Char) : List Char := List.replicate (w - s.length) '0' ++ s

/-- Chunks of `g` characters of a list, in order. -/
def chunks (g : Nat) : (fuel : Nat) → List Char → List (List Char)
  | 0, _ => []
  | fuel + 1, l => if l.isEmpty then [] else l.take g :: chunks g fuel (l.drop g)

/-- `groupify_string(string, group_size)`: separator after every `g` characters from the right. -/
def groupify (g : Nat) (s : List Char) : List Char :=
  let r := s.reverse
  let cs := chunks g (r.length + 1) r
  (List.intercalate [' '] cs).reverse

def intStr (x : Int) : List Char :=
  if x < 0 then '-' :: natStr 10 x.natAbs else natStr 10 x.natAbs

structure Reprs where
  bin  : String
  udec : String
  hex  : String
  sdec : String
deriving Repr, DecidableEq

/-- `get_n_bit_representations(number, n)` for `n ≥ 1`. -/
def nBitRepr (number : Int) (n : Nat) : Reprs :=
  let u : Nat := (number % (2 : Int) ^ n).toNat
  let sgn : Int := if u ≥ 2 ^ (n - 1) then (u : Int) - (2 : Int) ^ n else u
  { bin  := String.ofList (groupify 8 (padLeft n (natStr 2 u)))
    udec := String.ofList (natStr 10 u)
    hex  := String.ofList (groupify 2 (padLeft ((n + 3) / 4) (natStr 16 u)))
    sdec := String.ofList (intStr sgn) }

end ArchSim.Fmt
