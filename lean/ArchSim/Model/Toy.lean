/-
Model of the TOY machine:
  `isa/toy/toy_instructions.py`, `uarch/toy/toy_architectural_state.py`,
  `simulation/toy_simulation.py` (stepping API).
Import-free: compiled into the driver.
-/
import ArchSim.Model.Mem

namespace ArchSim.Toy
open ArchSim

/-- A TOY instruction object: `opcode` (0..12 after construction) and the 12-bit address section
    (kept also by the instructions that do not use it). -/
structure TInstr where
  opcode : Nat
  addr   : Nat
deriving Repr, DecidableEq, Inhabited

/-- `to_integer`: `(opcode << 12) + address`. -/
def encode (i : TInstr) : Nat := i.opcode * 4096 + i.addr

/-- `ToyInstruction.from_integer`: opcodes above 11 all construct a `NOP` (opcode 12). -/
def decode (w : Nat) : TInstr :=
  let op := (w / 4096) % 16
  { opcode := if op ≤ 11 then op else 12, addr := w % 4096 }

def mnemonic (op : Nat) : String :=
  match op with
  | 0 => "STO" | 1 => "LDA" | 2 => "BRZ" | 3 => "ADD" | 4 => "SUB" | 5 => "OR" | 6 => "AND"
  | 7 => "XOR" | 8 => "NOT" | 9 => "INC" | 10 => "DEC" | 11 => "ZRO" | _ => "NOP"

/-- `SvgVisValues` -/
structure Vis where
  accuOld : Option Nat := none
  aluOut  : Option Nat := none
  jump    : Bool := false
  ramOut  : Option Nat := none
  opOld   : Option Nat := none
  pcOld   : Option Nat := none
deriving Repr, DecidableEq, Inhabited

structure TSt where
  pc       : Nat := 1              -- `program_counter` (UInt12)
  addrCur  : Option Nat := none    -- `address_of_current_instruction`
  addrNext : Nat := 0              -- `address_of_next_instruction`
  accu     : Nat := 0
  mem      : Mem.Mem := Mem.Mem.empty Mem.toyCfg
  cycles   : Nat := 0
  instrs   : Nat := 0
  branches : Nat := 0
  maxPc    : Option Int := none
  loaded   : Option TInstr := none
  vis      : Vis := {}

/-- The simulation object: the architectural state plus `next_cycle` and `has_started`. -/
structure TSim where
  s         : TSt := {}
  nextCycle : Nat := 1
  started   : Bool := false

def rd (s : TSt) (a : Nat) : Nat :=
  match Mem.read s.mem 16 (a : Int) with
  | some (.ok v) => v
  | _ => 0      -- unreachable for `a < 4096` in the default 4096-word memory

def wr (s : TSt) (a : Nat) (v : Nat) : Mem.Mem :=
  match Mem.write s.mem 16 (a : Int) v with
  | some (m, _) => m
  | none => s.mem

def w16 (x : Int) : Nat := (x % 65536).toNat

/-- `loaded_instruction.behavior(state)` -/
def behavior (i : TInstr) (s : TSt) : TSt :=
  let m := rd s i.addr
  match i.opcode with
  | 0 => { s with vis := { aluOut := some s.accu }, mem := wr s i.addr s.accu }
  | 1 => { s with vis := { ramOut := some m, aluOut := some m }, accu := m }
  | 2 =>
    let s1 := { s with vis := { jump := (s.accu == 0) } }
    if s.accu = 0 then { s1 with pc := i.addr, branches := s.branches + 1 } else s1
  | 3 => { s with vis := { accuOld := some s.accu, ramOut := some m, aluOut := some ((s.accu + m) % 65536) },
                  accu := (s.accu + m) % 65536 }
  | 4 => { s with vis := { accuOld := some s.accu, ramOut := some m, aluOut := some (w16 ((s.accu : Int) - m)) },
                  accu := w16 ((s.accu : Int) - m) }
  | 5 => { s with vis := { accuOld := some s.accu, ramOut := some m, aluOut := some (s.accu ||| m) },
                  accu := s.accu ||| m }
  | 6 => { s with vis := { accuOld := some s.accu, ramOut := some m, aluOut := some (s.accu &&& m) },
                  accu := s.accu &&& m }
  | 7 => { s with vis := { accuOld := some s.accu, ramOut := some m, aluOut := some (s.accu ^^^ m) },
                  accu := s.accu ^^^ m }
  | 8 => { s with vis := { accuOld := some s.accu, aluOut := some (65535 - s.accu % 65536) },
                  accu := 65535 - s.accu % 65536 }
  | 9 => { s with vis := { accuOld := some s.accu, aluOut := some ((s.accu + 1) % 65536) },
                  accu := (s.accu + 1) % 65536 }
  | 10 => { s with vis := { accuOld := some s.accu, aluOut := some (w16 ((s.accu : Int) - 1)) },
                   accu := w16 ((s.accu : Int) - 1) }
  | 11 => { s with vis := { aluOut := some 0 }, accu := 0 }
  | _ => { s with vis := {} }

def isDone (t : TSim) : Bool := t.s.loaded.isNone

/-- Body of `first_cycle_step` once its guards passed. -/
def firstBody (t : TSim) (i : TInstr) : TSim :=
  let s1 := behavior i t.s
  { s := { s1 with addrCur := some s1.addrNext, addrNext := s1.pc, cycles := s1.cycles + 1 },
    nextCycle := 2, started := true }

/-- Body of `second_cycle_step` once its guards passed. -/
def secondBody (t : TSim) (i : TInstr) : TSim :=
  let s := t.s
  let ram := rd s s.pc
  let loaded' : Option TInstr :=
    match s.maxPc with
    | some mp => if (s.pc : Int) ≤ mp then some (decode ram) else none
    | none => none
  { t with
    s := { s with vis := { opOld := some i.opcode, pcOld := some s.pc, ramOut := some ram },
                  loaded := loaded', pc := (s.pc + 1) % 4096, instrs := s.instrs + 1, cycles := s.cycles + 1 },
    nextCycle := 1 }

inductive Call where
  | first | second | step | single
deriving Repr, DecidableEq

/-- Result of an API call: new simulation state and whether a `StepSequenceError` was raised. -/
structure CallOut where
  t   : TSim
  err : Bool

def firstCycle (t : TSim) : CallOut :=
  match t.s.loaded with
  | none => { t := t, err := false }
  | some i => if t.nextCycle ≠ 1 then { t := t, err := true } else { t := firstBody t i, err := false }

def secondCycle (t : TSim) : CallOut :=
  match t.s.loaded with
  | none => { t := t, err := false }
  | some i => if t.nextCycle ≠ 2 then { t := t, err := true } else { t := secondBody t i, err := false }

/-- `step()`: the sequencing check comes *before* the done check. -/
def stepCall (t : TSim) : CallOut :=
  if t.nextCycle ≠ 1 then { t := t, err := true }
  else
    let a := firstCycle t
    if a.err then a else secondCycle a.t

def singleCall (t : TSim) : CallOut :=
  if t.nextCycle = 1 then firstCycle t else secondCycle t

def call (t : TSim) : Call → CallOut
  | .first => firstCycle t
  | .second => secondCycle t
  | .step => stepCall t
  | .single => singleCall t

/-- `run()`, with fuel (a TOY program need not terminate). -/
def run : Nat → TSim → TSim
  | 0, t => t
  | n + 1, t => if isDone t then t else run n (stepCall t).t

/-- State produced by `ToyParser._load_instructions` + `_write_data` for an already resolved
    program: `instrs` at 0,1,…, data words at their addresses. `load_program` builds a fresh
    architectural state but keeps `next_cycle` and `has_started`. -/
def loadImage (t : TSim) (instrs : List TInstr) (data : List (Nat × Nat)) : TSim :=
  let m0 := data.foldl (fun m (a, v) => (Mem.writeN m (a : Int) 1 (v % 65536)).1) (Mem.Mem.empty Mem.toyCfg)
  let rec writeInstrs (m : Mem.Mem) (k : Nat) : List TInstr → Mem.Mem
    | [] => m
    | i :: is => writeInstrs (Mem.writeN m (k : Int) 1 (encode i % 65536)).1 (k + 1) is
  let m1 := writeInstrs m0 0 instrs
  let s : TSt := { mem := m1, maxPc := some ((instrs.length : Int) - 1) }
  let s' := match instrs with
    | [] => s
    | i :: _ => { s with loaded := some i, vis := { pcOld := some 0, ramOut := some (encode i % 65536) } }
  { t with s := s' }

end ArchSim.Toy
