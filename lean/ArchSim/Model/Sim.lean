/-
Model of the simulation API of `simulation/riscv_simulation.py`: `step`, `run`, `is_done`,
`load_program` for both pipeline modes. (The TOY API is in `Model.Toy` / `Model.ToyAsm`.)
Import-free: compiled into the driver.
-/
import ArchSim.Model.Pipe
import ArchSim.Model.Asm

namespace ArchSim.Sim
open ArchSim

/-- A `RiscvSimulation`: the mode and the pipeline state (single-stage mode uses only `p.st`). -/
structure RSim where
  five : Bool
  p    : Pipe.PSt
  started : Bool := false          -- `has_started`

/-- `is_done()` -/
def isDone (s : RSim) : Bool := if s.five then Pipe.isDone s.p else Rv.singleDone s.p.st

/-- Result of `step()`: the simulation afterwards, the returned Boolean (`not is_done()`), and the
    `InstructionExecutionException` if the step raised (address, printed instruction, fault). -/
structure StepRes where
  sim   : RSim
  ret   : Bool
  fault : Option (Int × Option Rv.Instr × Rv.Fault)

/-- `RiscvSimulation.step()`: nothing happens when the simulation is done. -/
def step (s : RSim) : StepRes :=
  if isDone s then { sim := s, ret := false, fault := none }
  else if s.five then
    let o := Pipe.step s.p
    let s' : RSim := { s with p := o.p, started := true }
    match o.fault with
    | none => { sim := s', ret := !isDone s', fault := none }
    | some f => { sim := s', ret := false, fault := some (f.addr, some f.instr, f.fault) }
  else
    let o := Rv.singleStep s.p.st
    let s' : RSim := { s with p := { s.p with st := o.st }, started := true }
    match o.fault with
    | none => { sim := s', ret := !isDone s', fault := none }
    | some (a, f) => { sim := s', ret := false, fault := some (a, s.p.st.imem.instrAt a, f) }

/-- `run()` with fuel: `while not is_done(): step()`; stops at a fault (the exception propagates). -/
def run : Nat → RSim → RSim × Nat × Option (Int × Option Rv.Instr × Rv.Fault)
  | 0, s => (s, 0, none)
  | fuel + 1, s =>
    if isDone s then (s, 0, none)
    else
      let r := step s
      match r.fault with
      | some f => (r.sim, 0, some f)
      | none =>
        let (s', n, f) := run fuel r.sim
        (s', n + 1, f)

/-- `load_program(text)`: only the two memories (and the instruction-cache counters) are reset;
    registers, pc, output, metrics, latches and data-cache counters are untouched. -/
def load (s : RSim) (text : String) : RSim × Option Asm.AsmErr :=
  let o := Asm.load s.p.st text
  ({ s with p := { s.p with st := o.st } }, o.err)

end ArchSim.Sim
