import ArchSim.Model.Toy
namespace ArchSim.ToyAsm
open ArchSim
def loadProgram (t : Toy.TSim) (_text : String) : Toy.TSim × String := (t, "unimplemented")
end ArchSim.ToyAsm
