/-
Model of the TOY assembler: `isa/parser.py` (`_sanitize`, `_tokenize`, `_segment`, `_add_label_mapping`)
and `isa/toy/toy_parser.py`, and of `ToySimulation.load_program`.
The pyparsing grammar is transcribed with the scanners of `Model.PP`.
Import-free: compiled into the driver.
-/
import ArchSim.Model.Toy
import ArchSim.Model.PP

namespace ArchSim.ToyAsm
open ArchSim ArchSim.PP

inductive TStmt where
  | directive (d : String)
  | varDecl (name : String) (vals : List String)
  | instr (lbl : Option String) (mn : String) (addr : Option String) (ref : Option String)
  | label (name : String)
deriving Repr, DecidableEq, Inhabited

def addrMnemonics : List String := ["STO", "LDA", "BRZ", "ADD", "SUB", "OR", "AND", "XOR"]
def noAddrMnemonics : List String := ["NOT", "INC", "DEC", "ZRO", "NOP"]

def isLabelInit (c : Char) : Bool := isAlpha c || c = '_'
def isLabelBody (c : Char) : Bool := isAlnum c || c = '_'

/-- `_pattern_label` -/
def pLabel : Inp → R String := word isLabelInit isLabelBody

/-- `_pattern_value = Combine("0x" + Word(hexnums)) | Word(nums)` (the decimal form is validated by
    a parse action: more than 4300 digits is a mismatch). -/
def pValue (i : Inp) : R String :=
  let i := skipWs i
  match (litAdj "0x" i).bind (fun _ r => wordAdj isHexNum isHexNum r) with
  | .ok h rest => .ok ("0x" ++ h) rest
  | .abort => .abort
  | .fail =>
    match wordAdj isNum isNum i with
    | .ok d rest => if (pyIntDec d).isSome then .ok d rest else .fail
    | r => r

def pColon : Inp → R Unit := lit ":"

def pLabelDecl (i : Inp) : R String :=
  (pLabel i).bind fun l r => (pColon r).map fun _ => l

def pDirective (i : Inp) : R TStmt :=
  (lit "." i).bind fun _ r => (oneOf ["text", "data"] r).map fun d => .directive d

/-- `delimitedList(value, ",")` after the first value. -/
def pMoreValues : Nat → Inp → List String → List String × Inp
  | 0, i, acc => (acc.reverse, i)
  | fuel + 1, i, acc =>
    match (lit "," i).bind (fun _ r => pValue r) with
    | .ok v rest => pMoreValues fuel rest (v :: acc)
    | _ => (acc.reverse, i)

def pVarDecl (i : Inp) : R TStmt :=
  (pLabel i).bind fun name r1 =>
  (pColon r1).bind fun _ r2 =>
  (lit "." r2).bind fun _ r3 =>
  (oneOf ["word"] r3).bind fun _ r4 =>
  (pValue r4).bind fun v r5 =>
    let (vs, rest) := pMoreValues r5.length r5 [v]
    .ok (.varDecl name vs) rest

def pAddrInstr (lbl : Option String) (i : Inp) : R TStmt :=
  (oneOfCaseless addrMnemonics i).bind fun mn r =>
    orLongest [fun j => (pValue j).map (fun v => TStmt.instr lbl mn (some v) none),
               fun j => (pLabel j).map (fun l => TStmt.instr lbl mn none (some l))] r

def pNoAddrInstr (lbl : Option String) (i : Inp) : R TStmt :=
  (oneOfCaseless noAddrMnemonics i).map fun mn => .instr lbl mn none none

def pInstruction (i : Inp) : R TStmt :=
  (opt pLabelDecl i).bind fun lbl r => orLongest [pAddrInstr lbl, pNoAddrInstr lbl] r

/-- `_pattern_line.parseString(line)`; `none` = the line cannot be tokenized. -/
def parseLine (line : List Char) : Option TStmt :=
  match orLongest [pDirective, pVarDecl, pInstruction,
                   fun i => (pLabelDecl i).map TStmt.label] line with
  | .ok s rest => if atEnd rest then some s else none
  | _ => none

/-! ### passes -/

inductive AsmErr where
  | parser (kind : String) (lineNo : Nat) (line : String)
  | memSize (n : Nat)
  | memAddr (a : Int)
deriving Repr, DecidableEq

abbrev Entry := Nat × String × TStmt      -- (line number, sanitized line, tokens)

/-- `_sanitize`: numbered, non-empty, non-comment lines with trailing comments removed, stripped. -/
def sanitize (text : String) : List (Nat × List Char) :=
  let ls := splitLines text.toList
  let numbered := (List.range ls.length).zip ls |>.map fun (k, l) => (k + 1, l)
  let kept := numbered.filter fun (_, l) =>
    let s := pyStrip l
    !s.isEmpty && s.head? != some '#'
  kept.map fun (k, l) => (k, pyStrip (l.takeWhile (· != '#')))

def tokenize : List (Nat × List Char) → Except AsmErr (List Entry)
  | [] => .ok []
  | (k, l) :: rest =>
    match parseLine l with
    | none => .error (.parser "ParserSyntaxException" k (String.ofList l))
    | some s =>
      match tokenize rest with
      | .error e => .error e
      | .ok es => .ok ((k, String.ofList l, s) :: es)

def isDir (d : String) (e : Entry) : Bool := e.2.2 == TStmt.directive d

/-- index of the entry with line number `k` in a list -/
def idxOfLine (k : Nat) (l : List Entry) : Nat := l.findIdx (fun e => e.1 == k)

structure Seg where
  data : List Entry
  text : List Entry
  dataExists : Bool
  textExists : Bool

/-- `_segment` -/
def segment (toks : List Entry) : Except AsmErr (List Entry × List Entry) :=
  match toks with
  | [] => .ok ([], [])
  | first :: rest =>
    let s0 : Seg :=
      if isDir "data" first then { data := rest, text := [], dataExists := true, textExists := false }
      else if isDir "text" first then { data := [], text := rest, dataExists := false, textExists := true }
      else { data := [], text := toks, dataExists := false, textExists := true }
    let step (acc : Except AsmErr Seg) (e : Entry) : Except AsmErr Seg :=
      match acc with
      | .error x => .error x
      | .ok s =>
        if isDir "data" e then
          if !s.dataExists then
            let idx := idxOfLine e.1 s.text
            .ok { s with dataExists := true, data := s.text.drop (idx + 1), text := s.text.take idx }
          else .error (.parser "ParserDirectiveException" e.1 e.2.1)
        else if isDir "text" e then
          if !s.textExists then
            let idx := idxOfLine e.1 s.data
            .ok { s with textExists := true, text := s.data.drop (idx + 1), data := s.data.take idx }
          else .error (.parser "ParserDirectiveException" e.1 e.2.1)
        else .ok s
    match rest.foldl step (.ok s0) with
    | .error x => .error x
    | .ok s => .ok (s.data, s.text)

abbrev Labels := List (String × Int)

def lookup (ls : Labels) (n : String) : Option Int := (ls.find? (fun p => p.1 == n)).map (·.2)

/-- `_add_label_mapping` -/
def addLabel (ls : Labels) (n : String) (v : Int) (k : Nat) (line : String) : Except AsmErr Labels :=
  if (lookup ls n).isSome then .error (.parser "DuplicateLabelException" k line) else .ok (ls ++ [(n, v)])

/-- `_process_labels` (runs over *all* tokenized lines, data segment included). -/
def processLabels : List Entry → Labels → Nat → Except AsmErr Labels
  | [], ls, _ => .ok ls
  | (k, line, s) :: rest, ls, pc =>
    match s with
    | .label n =>
      match addLabel ls n pc k line with
      | .error e => .error e
      | .ok ls' => processLabels rest ls' pc
    | .instr (some l) _ _ _ =>
      match addLabel ls l pc k line with
      | .error e => .error e
      | .ok ls' => processLabels rest ls' (pc + 1)
    | .instr none _ _ _ => processLabels rest ls (pc + 1)
    | _ => processLabels rest ls pc

/-- `_value_to_int` -/
def valueToInt (v : String) : Nat :=
  match v.toList with
  | '0' :: 'x' :: ds => (natOfDigits 16 ds).getD 0
  | ds => (natOfDigits 10 ds).getD 0

structure DataOut where
  mem    : Mem.Mem
  labels : Labels
  last   : Int             -- `last_address_not_used_by_data`
  err    : Option AsmErr

def writeVals (m : Mem.Mem) (a : Int) : List String → Mem.Mem
  | [] => m
  | v :: vs => writeVals (Mem.writeN m a 1 (valueToInt v % 65536)).1 (a + 1) vs

/-- `_write_data` -/
def writeData : List Entry → DataOut → DataOut
  | [], o => o
  | (k, line, s) :: rest, o =>
    match s with
    | .varDecl name vals =>
      let last := o.last - vals.length
      let wa := last + 1
      if wa < 0 then { o with last := last, err := some (.memSize 4096) }
      else
        match addLabel o.labels name wa k line with
        | .error e => { o with last := last, err := some e }
        | .ok ls => writeData rest { o with mem := writeVals o.mem wa vals, labels := ls, last := last }
    | _ => { o with err := some (.parser "ParserDataSyntaxException" k line) }

def opcodeOf (mn : String) : Nat :=
  match mn with
  | "STO" => 0 | "LDA" => 1 | "BRZ" => 2 | "ADD" => 3 | "SUB" => 4 | "OR" => 5 | "AND" => 6 | "XOR" => 7
  | "NOT" => 8 | "INC" => 9 | "DEC" => 10 | "ZRO" => 11 | _ => 12

/-- the instruction objects `_load_instructions` builds, or the first error -/
def buildInstrs : List Entry → Labels → Except AsmErr (List Toy.TInstr)
  | [], _ => .ok []
  | (k, line, s) :: rest, ls =>
    match s with
    | .varDecl _ _ => .error (.parser "ParserDataSyntaxException" k line)
    | .instr _ mn addr ref =>
      let op := opcodeOf mn
      let a : Except AsmErr Int :=
        if op ≤ 7 then
          match addr, ref with
          | some v, _ => .ok (valueToInt v)
          | none, some l =>
            match lookup ls l with
            | some x => .ok x
            | none => .error (.parser "ParserLabelException" k line)
          | none, none => .ok 0
        else .ok 0
      match a with
      | .error e => .error e
      | .ok x =>
        match buildInstrs rest ls with
        | .error e => .error e
        | .ok is => .ok ({ opcode := op, addr := (x % 4096).toNat } :: is)
    | _ => buildInstrs rest ls

def writeInstrs (m : Mem.Mem) (k : Nat) : List Toy.TInstr → Mem.Mem
  | [] => m
  | i :: is => writeInstrs (Mem.writeN m (k : Int) 1 (Toy.encode i % 65536)).1 (k + 1) is

/-- `ToySimulation.load_program(text)`: a fresh architectural state, then the parser passes; on an
    error the state keeps what the passes did so far. -/
def load (t : Toy.TSim) (text : String) : Toy.TSim × Option AsmErr :=
  let fresh : Toy.TSt := {}
  let t0 := { t with s := fresh }
  match tokenize (sanitize text) with
  | .error e => (t0, some e)
  | .ok toks =>
    match segment toks with
    | .error e => (t0, some e)
    | .ok (data, text') =>
      match processLabels toks [] 0 with
      | .error e => (t0, some e)
      | .ok ls =>
        let d := writeData data { mem := fresh.mem, labels := ls, last := 4095, err := none }
        let t1 := { t0 with s := { fresh with mem := d.mem } }
        match d.err with
        | some e => (t1, some e)
        | none =>
          match buildInstrs text' d.labels with
          | .error e => (t1, some e)
          | .ok is =>
            if (is.length : Int) - 1 > d.last then (t1, some (.memSize 4096))
            else
              let m := writeInstrs d.mem 0 is
              let s : Toy.TSt := { fresh with mem := m, maxPc := some ((is.length : Int) - 1) }
              let s' := match is with
                | [] => s
                | i :: _ => { s with loaded := some i, vis := { pcOld := some 0, ramOut := some (Toy.encode i % 65536) } }
              ({ t0 with s := s' }, none)

def hexNib (n : Nat) : Char := if n < 10 then Char.ofNat (48 + n) else Char.ofNat (87 + n)
def hexStr (s : String) : String :=
  if s.isEmpty then "." else s.toUTF8.foldl (fun acc b => acc ++ String.ofList [hexNib (b.toNat / 16), hexNib (b.toNat % 16)]) ""

def errStr : AsmErr → String
  | .parser kind k line => s!"PE {kind} {k} {hexStr line}"
  | .memSize n => s!"ME size {n}"
  | .memAddr a => s!"ME addr {a}"

def loadProgram (t : Toy.TSim) (text : String) : Toy.TSim × String :=
  match load t text with
  | (t', none) => (t', "ok")
  | (t', some e) => (t', errStr e)

end ArchSim.ToyAsm
