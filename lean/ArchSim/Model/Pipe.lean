/-
Model of the five-stage pipeline:
  `uarch/riscv/pipeline.py` (`Pipeline.step`, `is_done`), the five stages of `uarch/riscv/stages.py`,
  `uarch/riscv/pipeline_registers.py`.

A pipeline register that holds an `EmptyInstruction` is an inert bubble whatever its Python class
(every stage maps it to an all-`None` register of its own class), so a latch is `Option Latch` and
the position in the pipeline determines the class. Stage order inside a cycle is IF, WB, ID, EX,
MEM (`execution_ordering = [0, 4, 1, 2, 3]`).
Every sub-computation is a named definition (see DESIGN.md §4, proof-engineering conventions).
Import-free: compiled into the driver.
-/
import ArchSim.Model.Rv

namespace ArchSim.Pipe
open ArchSim ArchSim.Rv ArchSim.Cache

/-- A non-empty pipeline register (superset of the fields of the five register classes). -/
structure Latch where
  instr   : Instr
  addr    : Int                     -- `address_of_instruction`
  pc4     : Int                     -- `pc_plus_instruction_length`
  flagged : Bool := false           -- `is_of_stalled_value`
  stall   : Bool := false           -- `stall_signal is not None` (the duration is always 2)
  flush   : Option Int := none      -- `flush_signal.address` (`inclusive` is always `False`)
  rr      : RegRead := {}           -- ID: read addresses, read data, immediate
  wreg    : Option Nat := none      -- `write_register`
  result  : Option Int := none      -- EX: ALU result
  cmp     : Option Bool := none     -- EX: comparison
  pcImm   : Option Int := none      -- EX: `pc_plus_imm`
  exitCode : Option Int := none     -- EX: exit code of an exiting ecall
  memRead : Option Int := none      -- MEM: `memory_read_data`
  wdata   : Option Int := none      -- WB: `register_write_data`
deriving Repr, DecidableEq, Inhabited

/-- `stalled = [stage index, remaining]`, `stalled_pipeline_regs = pipeline_registers[:index]`. -/
structure Stall where
  k    : Nat
  rem  : Nat
  p0   : Option Latch          -- preserved IF/ID latch (input of ID)
  p1   : Option Latch          -- preserved ID/EX latch (input of EX); meaningful for `k = 2`
deriving Repr, DecidableEq

structure PSt where
  st     : St
  hazard : Bool                -- `detect_data_hazards`
  l0 : Option Latch            -- IF/ID
  l1 : Option Latch            -- ID/EX
  l2 : Option Latch            -- EX/MEM
  l3 : Option Latch            -- MEM/WB
  l4 : Option Latch            -- output of WB (display only)
  stalled : Option Stall

def PSt.init (st : St) (hazard : Bool) : PSt :=
  { st := st, hazard := hazard, l0 := none, l1 := none, l2 := none, l3 := none, l4 := none, stalled := none }

/-- A stage raised: address and instruction of the stage's input register, and the fault. -/
structure PFault where
  addr  : Int
  instr : Instr
  fault : Fault
deriving Repr, DecidableEq

/-! ### The five stages -/

/-- `InstructionFetchStage.behavior` -/
def ifStage (s : St) : St × Option Latch :=
  match s.imem.instrAt s.pc with
  | none => (s, none)
  | some _ =>
    let f := s.imem.fetch s.pc
    let s1 := { s with imem := f.imem, cycles := s.cycles + f.extra }
    match f.res with
    | .ok (some i) => ({ s1 with pc := s1.pc + 4 }, some { instr := i, addr := s.pc, pc4 := s.pc + 4 })
    | _ => ({ s1 with pc := s1.pc + 4 }, none)   -- unreachable: an instruction exists at pc

/-- Data-hazard test of the ID stage against one later latch. -/
def hazardWith (rr : RegRead) (l : Option Latch) : Bool :=
  match l with
  | none => false
  | some x =>
    match writeReg x.instr with
    | none => false
    | some r => r != 0 && (rr.a1 == some r || rr.a2 == some r)

def idStall (hazard : Bool) (rr : RegRead) (l1 l2 : Option Latch) : Bool :=
  hazard && (hazardWith rr l1 || hazardWith rr l2)

/-- `InstructionDecodeStage.behavior`; `l1`, `l2` are the registers after ID and EX. -/
def idStage (hazard : Bool) (regs : Nat → Nat) (inp l1 l2 : Option Latch) : Option Latch :=
  match inp with
  | none => none
  | some f =>
    let rr := accessRegs f.instr regs
    some { instr := f.instr, addr := f.addr, pc4 := f.pc4, rr := rr, wreg := writeReg f.instr,
           stall := idStall hazard rr l1 l2 }

/-- First ALU operand as selected by `alu_src_1`. -/
def aluIn1 (d : Latch) : Option Int :=
  match (ctlOf d.instr).aluSrc1 with
  | none => none
  | some true => d.rr.d1
  | some false => some d.addr

def aluIn2 (d : Latch) : Option Int :=
  if (ctlOf d.instr).aluSrc2 = some true then d.rr.imm else d.rr.d2

/-- ECALL drain test: are the registers the ECALL has to wait for all empty?
    `pipeline_registers[own + 1 + int(is_of_stalled_value) : -1]`. -/
def ecallMustWait (d : Latch) (l2 l3 : Option Latch) : Bool :=
  if d.flagged then l3.isSome else (l2.isSome || l3.isSome)

structure ExOut where
  st    : St
  latch : Option Latch
  fault : Option PFault

/-- `ExecuteStage.behavior` -/
def exStage (s : St) (inp l2 l3 : Option Latch) : ExOut :=
  match inp with
  | none => { st := s, latch := none, fault := none }
  | some d =>
    match aluCompute d.instr (aluIn1 d) (aluIn2 d) with
    | none => { st := s, latch := none, fault := some ⟨d.addr, d.instr, .mem .policy⟩ }
    | some (cmp, result) =>
      let pcImm : Option Int := d.rr.imm.map (· + d.addr)
      let base : Latch := { instr := d.instr, addr := d.addr, pc4 := d.pc4, rr := d.rr, wreg := d.wreg,
                            result := result, cmp := cmp, pcImm := pcImm }
      if d.instr.op = .ecall then
        if ecallMustWait d l2 l3 then
          { st := s, latch := some { base with stall := true }, fault := none }
        else
          match processEcall s with
          | (m, .out str) =>
            { st := { s with mem := m, output := s.output ++ str }, latch := some base, fault := none }
          | (m, .exit c) =>
            { st := { s with mem := m }, latch := some { base with exitCode := some c, flush := some d.pc4 },
              fault := none }
          | (m, .err e) => { st := { s with mem := m }, latch := none, fault := some ⟨d.addr, d.instr, .mem e⟩ }
          | (m, .invalid c) =>
            { st := { s with mem := m }, latch := none, fault := some ⟨d.addr, d.instr, .ecallCode c⟩ }
      else { st := s, latch := some base, fault := none }

/-- Flush decision of the MEM stage. -/
def memFlush (e : Latch) : Option Int :=
  let c := ctlOf e.instr
  let coj : Option Bool := if c.jump = some true then some true else e.cmp
  let incorrect : Bool := c.branch = some true && coj != some false
  if incorrect || c.jump = some true then e.pcImm
  else if c.aluToPc = some true then e.result
  else if e.exitCode.isSome then some e.pc4
  else none

structure MemStOut where
  st    : St
  latch : Option Latch
  fault : Option PFault

/-- `MemoryAccessStage.behavior` -/
def memStage (s : St) (inp : Option Latch) : MemStOut :=
  match inp with
  | none => { st := s, latch := none, fault := none }
  | some e =>
    match memoryAccess e.instr e.result e.rr.d2 s.mem true with
    | none => { st := s, latch := none, fault := some ⟨e.addr, e.instr, .mem .policy⟩ }
    | some o =>
      let s1 := { s with mem := o.mem, cycles := s.cycles + o.extra }
      match o.res with
      | .error err => { st := s1, latch := none, fault := some ⟨e.addr, e.instr, .mem err⟩ }
      | .ok rd =>
        let fl := memFlush e
        let s2 :=
          if fl.isSome then
            if e.instr.op.ty = .b then { s1 with branches := s1.branches + 1 }
            else if e.instr.op = .jal then { s1 with procs := s1.procs + 1 }
            else s1
          else s1
        { st := s2,
          latch := some { instr := e.instr, addr := e.addr, pc4 := e.pc4, rr := e.rr, wreg := e.wreg,
                          result := e.result, cmp := e.cmp, pcImm := e.pcImm, exitCode := e.exitCode,
                          memRead := rd, flush := fl },
          fault := none }

/-- Write-back data selection by `wb_src`. -/
def wbData (m : Latch) : Option Int :=
  match (ctlOf m.instr).wbSrc with
  | some 0 => some m.pc4
  | some 1 => m.memRead
  | some 2 => m.result
  | some 3 => m.rr.imm
  | _ => none

/-- `RegisterWritebackStage.behavior` -/
def wbStage (s : St) (inp : Option Latch) : St × Option Latch :=
  match inp with
  | none => (s, none)
  | some m =>
    let s1 := { s with instrs := s.instrs + 1 }
    let data := wbData m
    let regs' := (writeBack m.instr m.wreg data s1.regs).getD s1.regs
    let s2 := { s1 with regs := regs' }
    let s3 := match m.exitCode with
      | some c => { s2 with exitCode := some c }
      | none => s2
    (s3, some { instr := m.instr, addr := m.addr, pc4 := m.pc4, wreg := m.wreg, wdata := data,
                memRead := m.memRead, result := m.result, rr := m.rr,
                flush := if m.exitCode.isSome then some m.pc4 else none })

/-! ### `Pipeline.step` -/

/-- Input of the ID stage this cycle. -/
def idInput (p : PSt) : Option Latch :=
  match p.stalled with
  | none => p.l0
  | some st => st.p0

/-- Input of the EX stage this cycle. -/
def exInput (p : PSt) : Option Latch :=
  match p.stalled with
  | none => p.l1
  | some st => if st.k = 1 then none else st.p1

/-- Input of the MEM stage this cycle. -/
def memInput (p : PSt) : Option Latch :=
  match p.stalled with
  | none => p.l2
  | some st => if st.k = 2 then none else p.l2

/-- `pipeline_registers[1]` after an exception in a *stalled* EX stage: the preserved register that
    was substituted as its input is not put back (`self.pipeline_registers[index - 1] = tmp` is skipped). -/
def exFaultL1 (p : PSt) : Option Latch :=
  match p.stalled with
  | none => p.l1
  | some st => if st.k = 2 then st.p1 else p.l1

def latchStall (l : Option Latch) : Bool := match l with | some x => x.stall | none => false
def latchFlush (l : Option Latch) : Option Int := match l with | some x => x.flush | none => none
def setFlag (l : Option Latch) : Option Latch := l.map fun x => { x with flagged := true }

/-- Stall signal pick-up: the highest stage with a stall signal that is allowed to (re)start a stall. -/
def pickStall (old : Option Stall) (n1 n2 : Option Latch) : Option Nat :=
  let ok (idx : Nat) : Bool := match old with | none => true | some st => idx > st.k
  if latchStall n2 && ok 2 then some 2
  else if latchStall n1 && ok 1 then some 1
  else none

structure StepOut where
  p     : PSt
  fault : Option PFault

/-- The part of `Pipeline.step` after the stage loop: stall bookkeeping, register update,
    count-down, flush. `s` is the architectural state after the stages ran. -/
def finishStep (p : PSt) (s : St) (n0 n1 n2 n3 n4 : Option Latch) : PSt :=
  -- stall pick-up
  let picked := pickStall p.stalled n1 n2
  let stalled1 : Option Stall := match picked with
    | none => p.stalled
    | some k =>
      match p.stalled with
      | none => some { k := k, rem := 3, p0 := setFlag p.l0, p1 := if k = 2 then setFlag p.l1 else none }
      | some old => some { old with k := k, rem := 3 }
  let s1 := if picked.isSome then { s with stalls := s.stalls + 1 } else s
  -- count-down
  let stalled2 : Option Stall := match stalled1 with
    | none => none
    | some st => if st.rem - 1 = 0 then none else some { st with rem := st.rem - 1 }
  -- flush (highest latch first)
  match latchFlush n4 with
  | some a =>
    { p with st := { s1 with flushes := s1.flushes + 1, pc := a % 4294967296 },
             l0 := none, l1 := none, l2 := none, l3 := none, l4 := n4, stalled := none }
  | none =>
    match latchFlush n3 with
    | some a =>
      { p with st := { s1 with flushes := s1.flushes + 1, pc := a % 4294967296 },
               l0 := none, l1 := none, l2 := none, l3 := n3, l4 := n4, stalled := none }
    | none =>
      match latchFlush n2 with
      | some a =>
        { p with st := { s1 with flushes := s1.flushes + 1, pc := a % 4294967296 },
                 l0 := none, l1 := none, l2 := n2, l3 := n3, l4 := n4,
                 stalled := match stalled2 with
                   | none => none
                   | some st => if st.k < 2 then none else some st }
      | none =>
        { p with st := s1, l0 := n0, l1 := n1, l2 := n2, l3 := n3, l4 := n4, stalled := stalled2 }

/-- One `Pipeline.step()` in five-stage mode. On a fault the Python method raises in the middle of
    the stage loop: the architectural effects of the stages that already ran persist, the pipeline
    registers are not replaced. -/
def step (p : PSt) : StepOut :=
  let s0 := { p.st with cycles := p.st.cycles + 1 }
  -- IF (index 0): not recomputed while stalled
  let (s1, n0) := match p.stalled with
    | none => ifStage s0
    | some _ => (s0, p.l0)
  -- WB (index 4)
  let (s2, n4) := wbStage s1 p.l3
  -- ID (index 1)
  let n1 := idStage p.hazard s2.regs (idInput p) p.l1 p.l2
  -- EX (index 2)
  let ex := exStage s2 (exInput p) p.l2 p.l3
  match ex.fault with
  | some f =>
    -- the exception skips the line that restores the substituted input register of a stalled EX
    { p := { p with st := ex.st, l1 := exFaultL1 p }, fault := some f }
  | none =>
    -- MEM (index 3)
    let me := memStage ex.st (memInput p)
    match me.fault with
    | some f => { p := { p with st := me.st }, fault := some f }
    | none => { p := finishStep p me.st n0 n1 ex.latch me.latch n4, fault := none }

/-- `Pipeline.is_done()` -/
def isDone (p : PSt) : Bool :=
  p.st.exitCode.isSome ||
    (p.l0.isNone && p.l1.isNone && p.l2.isNone && p.l3.isNone && (p.st.imem.instrAt p.st.pc).isNone)

end ArchSim.Pipe

namespace ArchSim.Pipe
open ArchSim ArchSim.Rv

/-- The five split functions run back to back on one instruction with nothing else in flight:
    IF, ID (no older latches), EX (drained), MEM, WB, then the pc is the flush target if any stage
    asked for a flush, else the incremented pc. This is the data path that `split_agrees` (C02 a)
    compares with `singleStep`. The cycle counter advances once, as in `singleStep`. -/
def splitStep (s : St) : Rv.StepOut :=
  let s0 := { s with cycles := s.cycles + 1 }
  match ifStage s0 with
  | (s1, none) => { st := s1, fault := none }
  | (s1, some f) =>
    let d := idStage false s1.regs (some f) none none
    let ex := exStage s1 d none none
    match ex.fault with
    | some ft => { st := { ex.st with pc := f.addr }, fault := some (ft.addr, ft.fault) }
    | none =>
      let me := memStage ex.st ex.latch
      match me.fault with
      | some ft => { st := { me.st with pc := f.addr }, fault := some (ft.addr, ft.fault) }
      | none =>
        let (s4, w) := wbStage me.st me.latch
        let target : Option Int :=
          match latchFlush w with
          | some a => some a
          | none => match latchFlush me.latch with
            | some a => some a
            | none => latchFlush ex.latch
        match target with
        | some a => { st := { s4 with pc := a % 4294967296 }, fault := none }
        | none => { st := s4, fault := none }

end ArchSim.Pipe
