/-
Model of the RISC-V assembler: `isa/parser.py` and `isa/riscv/riscv_parser.py`, and of
`RiscvSimulation.load_program`.
The pyparsing grammar is transcribed alternative by alternative with the scanners of `Model.PP`; the
passes (`_segment`, `_list_access_at_zero_and_remove_inline_labels`, `_write_data`,
`_process_pseudo_instructions`, `_process_labels`, `_write_instructions`) follow the Python.
Pseudo-instructions are expanded on the syntax tree (the Python re-parses generated text such as
`"lui x5, 17"`, which yields exactly these trees).
Import-free: compiled into the driver.
-/
import ArchSim.Model.Rv
import ArchSim.Model.PP

namespace ArchSim.Asm
open ArchSim ArchSim.PP ArchSim.Rv

/-! ### grammar -/

def abiNames : List (String × Nat) :=
  [("zero", 0), ("ra", 1), ("sp", 2), ("gp", 3), ("tp", 4), ("t0", 5), ("t1", 6), ("t2", 7), ("s0", 8), ("fp", 8),
   ("s1", 9), ("a0", 10), ("a1", 11), ("a2", 12), ("a3", 13), ("a4", 14), ("a5", 15), ("a6", 16), ("a7", 17),
   ("s2", 18), ("s3", 19), ("s4", 20), ("s5", 21), ("s6", 22), ("s7", 23), ("s8", 24), ("s9", 25), ("s10", 26),
   ("s11", 27), ("t3", 28), ("t4", 29), ("t5", 30), ("t6", 31)]

def regNumbers : List String := (List.range 32).map toString

/-- `_pattern_register = one_of(abi names) | Group("x" + one_of(0..31))`, converted by
    `_convert_register_name`. -/
def pReg (i : Inp) : R Nat :=
  match oneOf (abiNames.map (·.1)) i with
  | .ok n rest => .ok ((abiNames.find? (fun p => p.1 == n)).map (·.2) |>.getD 0) rest
  | .abort => .abort
  | .fail =>
    (lit "x" i).bind fun _ r => (oneOf regNumbers r).map fun n => n.toNat!

def isLabelInit (c : Char) : Bool := isAlpha c || c = '_'
def isLabelBody (c : Char) : Bool := isAlnum c || c = '_'
def pLabel : Inp → R String := word isLabelInit isLabelBody
def pLabelAdj : Inp → R String := wordAdj isLabelInit isLabelBody

def isBin (c : Char) : Bool := c = '0' || c = '1'

/-- the numeral text of `_pattern_imm` (a `Combine`: sign and digits adjacent), before validation -/
def pImmText (i : Inp) : R String :=
  let i := skipWs i
  let (sign, j) : String × Inp := match i with
    | '-' :: r => ("-", r)
    | r => ("", r)
  match (litAdj "0x" j).bind (fun _ r => wordAdj isHexNum isHexNum r) with
  | .ok h rest => .ok (sign ++ "0x" ++ h) rest
  | .abort => .abort
  | .fail =>
    match (litAdj "0b" j).bind (fun _ r => wordAdj isBin isBin r) with
    | .ok b rest => .ok (sign ++ "0b" ++ b) rest
    | .abort => .abort
    | .fail =>
      match wordAdj isNum isNum j with
      | .ok d rest => .ok (sign ++ d) rest
      | r => r

/-- `_pattern_imm` with its validating parse action: the value of `int(text, base=0)`. -/
def pImm (i : Inp) : R Int :=
  (pImmText i).bind fun t rest =>
    match pyIntBase0 t with
    | some v => .ok v rest
    | none => .fail

def pComma : Inp → R Unit := lit ","
def pColon : Inp → R Unit := lit ":"

/-- `Optional(PLUS + Combine("0x" + Word(hexnums))("offset"))`: value of the offset or 0 -/
def pOffset (i : Inp) : R Int :=
  match (lit "+" i).bind (fun _ r =>
      let r := skipWs r
      (litAdj "0x" r).bind fun _ r2 => wordAdj isHexNum isHexNum r2) with
  | .ok h rest => .ok ((natOfDigits 16 h.toList).getD 0 : Nat) rest
  | .abort => .abort
  | .fail => .ok 0 i

/-- `_pattern_variable = Combine(label + Optional(Combine("[" + Word(nums) + "]")))`:
    (name, index text) -/
def pVariable (i : Inp) : R (String × Option Int) :=
  (pLabel i).bind fun name r =>
    match (litAdj "[" r).bind (fun _ r1 => (wordAdj isNum isNum r1).bind fun d r2 =>
        match pyIntDec d with
        | some v => (litAdj "]" r2).map fun _ => v
        | none => .fail) with
    | .ok v rest => .ok (name, some v) rest
    | .abort => .abort
    | .fail => .ok (name, none) r

/-- Parsed instruction forms (one constructor per grammar alternative). -/
inductive PInstr where
  | rtype (mn : String) (rd rs1 rs2 : Nat)
  | utype (mn : String) (rd : Nat) (imm : Int)
  | btypeLabel (mn : String) (r1 r2 : Nat) (label : String) (offset : Int)
  | mem (mn : String) (r1 : Nat) (imm : Int) (r2 : Nat)
  | memPseudo (mn : String) (r1 : Nat) (var : String) (idx : Option Int)
  | sPseudo (mn : String) (r1 : Nat) (var : String) (idx : Option Int) (r2 : Nat)
  | csr (mn : String) (rd : Nat) (csr : Int) (rs1 : Nat)
  | csri (mn : String) (rd : Nat) (csr : Int) (uimm : Int)
  | rri (mn : String) (r1 r2 : Nat) (imm : Int)
  | fence (rd rs1 : Nat)
  | jalImm (rd : Nat) (imm : Int)
  | jalLabel (rd : Nat) (label : String) (offset : Int)
  | li (rd : Nat) (imm : Int)
  | mv (rd rs : Nat)
deriving Repr, DecidableEq, Inhabited

def rrrMn : List String := ["add", "sub", "sll", "slt", "sltu", "xor", "srl", "sra", "or", "and",
  "mul", "mulh", "mulhu", "mulhsu", "div", "divu", "rem", "remu"]
def normalIMn : List String := ["addi", "slti", "sltiu", "xori", "ori", "andi", "slli", "srli", "srai"]
def memIMn : List String := ["lb", "lh", "lw", "lbu", "lhu", "jalr"]
def bMn : List String := ["beq", "bne", "blt", "bge", "bltu", "bgeu"]
def sMn : List String := ["sb", "sh", "sw"]
def uMn : List String := ["lui", "auipc"]
def csrMn : List String := ["csrrw", "csrrs", "csrrc"]
def csriMn : List String := ["csrrwi", "csrrsi", "csrrci"]

def pRType (i : Inp) : R PInstr :=
  (oneOfCaseless rrrMn i).bind fun mn r0 =>
  (pReg r0).bind fun rd r1 => (pComma r1).bind fun _ r2 =>
  (pReg r2).bind fun rs1 r3 => (pComma r3).bind fun _ r4 =>
  (pReg r4).map fun rs2 => .rtype mn rd rs1 rs2

def pRegRegImm (i : Inp) : R PInstr :=
  (oneOfCaseless (normalIMn ++ memIMn ++ bMn ++ sMn) i).bind fun mn r0 =>
  (pReg r0).bind fun a r1 => (pComma r1).bind fun _ r2 =>
  (pReg r2).bind fun b r3 => (pComma r3).bind fun _ r4 =>
  (pImm r4).map fun imm => .rri mn a b imm

def pBType (i : Inp) : R PInstr :=
  (oneOfCaseless bMn i).bind fun mn r0 =>
  (pReg r0).bind fun a r1 => (pComma r1).bind fun _ r2 =>
  (pReg r2).bind fun b r3 => (pComma r3).bind fun _ r4 =>
  (pLabel r4).bind fun l r5 => (pOffset r5).map fun off => .btypeLabel mn a b l off

def pMemory (i : Inp) : R PInstr :=
  (oneOfCaseless (memIMn ++ sMn) i).bind fun mn r0 =>
  (pReg r0).bind fun a r1 => (pComma r1).bind fun _ r2 =>
  (pImm r2).bind fun imm r3 => (lit "(" r3).bind fun _ r4 =>
  (pReg r4).bind fun b r5 => (lit ")" r5).map fun _ => .mem mn a imm b

def pMemPseudo (i : Inp) : R PInstr :=
  (oneOfCaseless (memIMn ++ ["la"]) i).bind fun mn r0 =>
  (pReg r0).bind fun a r1 => (pComma r1).bind fun _ r2 =>
  (pVariable r2).map fun (v, idx) => .memPseudo mn a v idx

def pSPseudo (i : Inp) : R PInstr :=
  (oneOfCaseless sMn i).bind fun mn r0 =>
  (pReg r0).bind fun a r1 => (pComma r1).bind fun _ r2 =>
  (pVariable r2).bind fun (v, idx) r3 => (pComma r3).bind fun _ r4 =>
  (pReg r4).map fun b => .sPseudo mn a v idx b

def pJal (i : Inp) : R PInstr :=
  (caselessLit "jal" i).bind fun _ r0 =>
  (pReg r0).bind fun rd r1 => (pComma r1).bind fun _ r2 =>
    orLongest [fun j => (pImm j).map (fun imm => PInstr.jalImm rd imm),
               fun j => (pLabel j).bind fun l r3 => (pOffset r3).map fun off => PInstr.jalLabel rd l off] r2

def pUType (i : Inp) : R PInstr :=
  (oneOfCaseless uMn i).bind fun mn r0 =>
  (pReg r0).bind fun rd r1 => (pComma r1).bind fun _ r2 => (pImm r2).map fun imm => .utype mn rd imm

def pFence (i : Inp) : R PInstr :=
  (caselessLit "fence" i).bind fun _ r0 =>
  (pReg r0).bind fun rd r1 => (pComma r1).bind fun _ r2 => (pReg r2).map fun rs1 => .fence rd rs1

def pCsr (i : Inp) : R PInstr :=
  (oneOfCaseless csrMn i).bind fun mn r0 =>
  (pReg r0).bind fun rd r1 => (pComma r1).bind fun _ r2 =>
  (pImm r2).bind fun c r3 => (pComma r3).bind fun _ r4 => (pReg r4).map fun rs1 => .csr mn rd c rs1

def pCsri (i : Inp) : R PInstr :=
  (oneOfCaseless csriMn i).bind fun mn r0 =>
  (pReg r0).bind fun rd r1 => (pComma r1).bind fun _ r2 =>
  (pImm r2).bind fun c r3 => (pComma r3).bind fun _ r4 => (pImm r4).map fun u => .csri mn rd c u

def pLi (i : Inp) : R PInstr :=
  (caselessLit "li" i).bind fun _ r0 =>
  (pReg r0).bind fun rd r1 => (pComma r1).bind fun _ r2 => (pImm r2).map fun imm => .li rd imm

def pMv (i : Inp) : R PInstr :=
  (oneOfCaseless ["mv"] i).bind fun _ r0 =>
  (pReg r0).bind fun rd r1 => (pComma r1).bind fun _ r2 => (pReg r2).map fun rs => .mv rd rs

/-- What an entry of `self.text` / `self.data` is after
    `_list_access_at_zero_and_remove_inline_labels`: a plain string (a stand-alone label, or the bare
    words `ecall`, `ebreak`, `nop`), a grouped instruction, a declaration or a directive. -/
inductive Item where
  | str (s : String)
  | grp (pi : PInstr)
  | varDecl (name : String) (ty : String) (vals : List Int)
  | strDecl (name : String) (body : List Char)
  | zeroDecl (name : String) (n : Int)
  | directive (d : String)
deriving Repr, DecidableEq, Inhabited

/-- a tokenized line: optional in-line label and the item -/
structure Tok where
  lbl  : Option String
  item : Item
deriving Repr, DecidableEq, Inhabited

def pInstrBody (i : Inp) : R Item :=
  orLongest
    [ fun j => (pRType j).map Item.grp, fun j => (pUType j).map Item.grp, fun j => (pBType j).map Item.grp,
      fun j => (pMemory j).map Item.grp, fun j => (pMemPseudo j).map Item.grp, fun j => (pSPseudo j).map Item.grp,
      fun j => (pCsr j).map Item.grp, fun j => (pCsri j).map Item.grp, fun j => (pRegRegImm j).map Item.grp,
      fun j => (pFence j).map Item.grp, fun j => (pJal j).map Item.grp,
      fun j => (first [fun k => (caselessLit "ecall" k).map (fun _ => Item.str "ecall"),
                        fun k => (caselessLit "ebreak" k).map (fun _ => Item.str "ebreak")] j),
      fun j => (caselessLit "nop" j).map (fun _ => Item.str "nop"),
      fun j => (pLi j).map Item.grp, fun j => (pMv j).map Item.grp ] i

def pLabelDecl (i : Inp) : R String := (pLabel i).bind fun l r => (pColon r).map fun _ => l

def pInstruction (i : Inp) : R Tok :=
  (opt pLabelDecl i).bind fun lbl r => (pInstrBody r).map fun it => { lbl := lbl, item := it }

def pDirective (i : Inp) : R Tok :=
  (lit "." i).bind fun _ r => (oneOf ["text", "data"] r).map fun d => { lbl := none, item := .directive d }

def pMoreImms : Nat → Inp → List Int → List Int × Inp
  | 0, i, acc => (acc.reverse, i)
  | fuel + 1, i, acc =>
    match (pComma i).bind (fun _ r => pImm r) with
    | .ok v rest => pMoreImms fuel rest (v :: acc)
    | _ => (acc.reverse, i)

def pVarDecl (i : Inp) : R Tok :=
  (pLabel i).bind fun name r1 => (pColon r1).bind fun _ r2 =>
  (lit "." r2).bind fun _ r3 => (oneOf ["byte", "half", "word"] r3).bind fun ty r4 =>
  (pImm r4).bind fun v r5 =>
    let (vs, rest) := pMoreImms r5.length r5 [v]
    .ok { lbl := none, item := .varDecl name ty vs } rest

/-- body of the `quoted_string` regex after the opening quote `q`: ordinary characters, a doubled
    quote, or a backslash escape (`\x` needs hex digits). Returns the raw body and the rest, which
    starts at the first character the regex cannot consume. -/
def quotedBody (q : Char) : Nat → Inp → List Char → List Char × Inp
  | 0, i, acc => (acc.reverse, i)
  | fuel + 1, i, acc =>
    match i with
    | [] => (acc.reverse, [])
    | c :: cs =>
      if c = q then
        match cs with
        | c2 :: cs2 => if c2 = q then quotedBody q fuel cs2 (q :: q :: acc) else (acc.reverse, i)
        | [] => (acc.reverse, i)
      else if c = '\\' then
        match cs with
        | [] => (acc.reverse, i)
        | 'x' :: cs2 =>
          let hs := cs2.takeWhile isHexNum
          if hs.isEmpty then (acc.reverse, i)
          else quotedBody q fuel (cs2.dropWhile isHexNum) (hs.reverse ++ ('x' :: '\\' :: acc))
        | c2 :: cs2 => quotedBody q fuel cs2 (c2 :: '\\' :: acc)
      else if c = '\n' || c = '\r' then (acc.reverse, i)
      else quotedBody q fuel cs (c :: acc)

def pQuoted (i : Inp) : R (List Char) :=
  let i := skipWs i
  let tryQ (q : Char) : R (List Char) :=
    match i with
    | c :: cs =>
      if c = q then
        let (body, rest) := quotedBody q (cs.length + 1) cs []
        match rest with
        | c2 :: rest2 => if c2 = q then .ok body rest2 else .fail
        | [] => .fail
      else .fail
    | [] => .fail
  match tryQ '"' with
  | .ok b r => .ok b r
  | _ => tryQ '\''

def pStrDecl (i : Inp) : R Tok :=
  (pLabel i).bind fun name r1 => (pColon r1).bind fun _ r2 =>
  (lit "." r2).bind fun _ r3 => (lit "string" r3).bind fun _ r4 =>
  (pQuoted r4).map fun body => { lbl := none, item := .strDecl name body }

def pZeroDecl (i : Inp) : R Tok :=
  (pLabel i).bind fun name r1 => (pColon r1).bind fun _ r2 =>
  (lit "." r2).bind fun _ r3 => (lit "zero" r3).bind fun _ r4 =>
  (word isNum isNum r4).bind fun d r5 =>
    match pyIntDec d with
    | some v => .ok { lbl := none, item := .zeroDecl name v } r5
    | none => .fail

/-- `_pattern_line.parseString(line)`; `none` = the line cannot be tokenized. -/
def parseLine (line : List Char) : Option Tok :=
  match orLongest [pDirective, pVarDecl, pStrDecl, pZeroDecl, pInstruction,
                   fun i => (pLabelDecl i).map fun l => { lbl := none, item := Item.str l }] line with
  | .ok t rest => if atEnd rest then some t else none
  | _ => none

/-! ### passes -/

inductive AsmErr where
  | parser (kind : String) (lineNo : Nat) (line : String)
  | memAddr (a : Int)
deriving Repr, DecidableEq

abbrev Entry := Nat × String × Tok

def sanitize (text : String) : List (Nat × List Char) :=
  let ls := splitLines text.toList
  let numbered := (List.range ls.length).zip ls |>.map fun (k, l) => (k + 1, l)
  let kept := numbered.filter fun (_, l) =>
    let s := pyStrip l
    !s.isEmpty && s.head? != some '#'
  kept.map fun (k, l) => (k, pyStrip (l.takeWhile (· != '#')))

def tokenize : List (Nat × List Char) → Except AsmErr (List Entry)
  | [] => .ok []
  | (k, l) :: rest =>
    match parseLine l with
    | none => .error (.parser "ParserSyntaxException" k (String.ofList l))
    | some t =>
      match tokenize rest with
      | .error e => .error e
      | .ok es => .ok ((k, String.ofList l, t) :: es)

def isDir (d : String) (e : Entry) : Bool := e.2.2.item == Item.directive d && e.2.2.lbl.isNone
def idxOfLine (k : Nat) (l : List Entry) : Nat := l.findIdx (fun e => e.1 == k)

structure Seg where
  data : List Entry
  text : List Entry
  dataExists : Bool
  textExists : Bool

/-- `_segment` -/
def segment (toks : List Entry) : Except AsmErr (List Entry × List Entry) :=
  match toks with
  | [] => .ok ([], [])
  | first :: rest =>
    let s0 : Seg :=
      if isDir "data" first then { data := rest, text := [], dataExists := true, textExists := false }
      else if isDir "text" first then { data := [], text := rest, dataExists := false, textExists := true }
      else { data := [], text := toks, dataExists := false, textExists := true }
    let step (acc : Except AsmErr Seg) (e : Entry) : Except AsmErr Seg :=
      match acc with
      | .error x => .error x
      | .ok s =>
        if isDir "data" e then
          if !s.dataExists then
            let idx := idxOfLine e.1 s.text
            .ok { s with dataExists := true, data := s.text.drop (idx + 1), text := s.text.take idx }
          else .error (.parser "ParserDirectiveException" e.1 e.2.1)
        else if isDir "text" e then
          if !s.textExists then
            let idx := idxOfLine e.1 s.data
            .ok { s with textExists := true, text := s.data.drop (idx + 1), data := s.data.take idx }
          else .error (.parser "ParserDirectiveException" e.1 e.2.1)
        else .ok s
    match rest.foldl step (.ok s0) with
    | .error x => .error x
    | .ok s => .ok (s.data, s.text)

/-- variables: name ↦ (address, element size) -/
abbrev Vars := List (String × Int × Int)
def lookupVar (vs : Vars) (n : String) : Option (Int × Int) := (vs.find? (fun p => p.1 == n)).map (·.2)

structure DataOut where
  mem  : MemSys
  vars : Vars
  ctr  : Int                 -- `address_counter`
  err  : Option AsmErr

def align4 (a : Int) : Int := if a % 4 ≠ 0 then a + (4 - a % 4) else a

/-- a sequence of direct writes of `bits`-bit values at stride `bits/8`; stops at the first error -/
def writeSeq (bits : Nat) : List Int → MemSys → Int → MemSys × Int × Option AsmErr
  | [], m, a => (m, a, none)
  | v :: vs, m, a =>
    let o := m.write bits a ((v % (2 : Int) ^ bits).toNat) true
    match o.res with
    | .error (.addr x) => (o.mem, a, some (.memAddr x))
    | .error _ => (o.mem, a, some (.memAddr a))
    | .ok _ => writeSeq bits vs o.mem (a + (bits / 8 : Nat))

/-- `_write_data`. In the data segment an entry is what `p[0]` is: for a line with an in-line label
    that is the label string, so any such line — like any line that is not a declaration — is a
    data-syntax error. -/
def writeData : List Entry → DataOut → DataOut
  | [], o => o
  | (k, line, t) :: rest, o =>
    let bad : DataOut := { o with err := some (.parser "ParserDataSyntaxException" k line) }
    if t.lbl.isSome then bad else
    let declare (name : String) (f : Int → MemSys × Int × Option AsmErr) (size : Int) : DataOut :=
      if (lookupVar o.vars name).isSome then { o with err := some (.parser "ParserDataDuplicateException" k line) }
      else
        let a := align4 o.ctr
        match f a with
        | (m, a', some e) => { o with mem := m, ctr := a', vars := o.vars ++ [(name, a, size)], err := some e }
        | (m, a', none) => writeData rest { o with mem := m, ctr := a', vars := o.vars ++ [(name, a, size)] }
    match t.item with
    | .varDecl name ty vals =>
      let bits := if ty = "byte" then 8 else if ty = "half" then 16 else 32
      declare name (fun a => writeSeq bits vals o.mem a) (bits / 8 : Nat)
    | .strDecl name body =>
      declare name (fun a => writeSeq 8 (body.map (fun c => (c.toNat : Int)) ++ [0]) o.mem a) 1
    | .zeroDecl name n => declare name (fun a => (o.mem, a + 4 * n, none)) 4
    | _ => bad

/-- the lui/addi split of a 32-bit constant: `(lui_imm, addi_imm)` -/
def hiLo (v : Int) : Int × Int :=
  let u : Int := v % 4294967296
  let lo := u % 4096
  let hi := u / 4096
  (if lo > 2047 then hi + 1 else hi, lo)

/-- text entries after `_list_access_at_zero_and_remove_inline_labels`: (line no, line, item) -/
abbrev TEntry := Nat × String × Item

/-- `_process_pseudo_instructions`: expansion of one entry (or the error). -/
def expandOne (vars : Vars) (e : TEntry) : Except AsmErr (List TEntry) :=
  let (k, line, it) := e
  let mk (pi : PInstr) : TEntry := (k, line, .grp pi)
  let varAddr (v : String) (idx : Option Int) : Except AsmErr Int :=
    match lookupVar vars v with
    | none => .error (.parser "ParserVariableException" k line)
    | some (a, sz) => .ok (a + sz * idx.getD 0)
  match it with
  | .str "nop" => .ok [mk (.rri "addi" 0 0 0)]
  | .grp (.li rd imm) =>
    let (hi, lo) := hiLo imm
    if imm > 2047 ∨ imm < -2048 then .ok [mk (.utype "lui" rd hi), mk (.rri "addi" rd rd lo)]
    else .ok [mk (.rri "addi" rd 0 imm)]
  | .grp (.memPseudo mn r1 v idx) =>
    match varAddr v idx with
    | .error x => .error x
    | .ok a =>
      let (hi, lo) := hiLo a
      let base := [mk (.utype "lui" r1 hi), mk (.rri "addi" r1 r1 lo)]
      if mn = "la" then .ok base else .ok (base ++ [mk (.mem mn r1 0 r1)])
  | .grp (.sPseudo mn r1 v idx r2) =>
    match varAddr v idx with
    | .error x => .error x
    | .ok a =>
      let (hi, lo) := hiLo a
      .ok [mk (.utype "lui" r2 hi), mk (.rri "addi" r2 r2 lo), mk (.mem mn r1 0 r2)]
  | .grp (.mv rd rs) => .ok [mk (.rri "addi" rd rs 0)]
  | _ => .ok [e]

def expandAll (vars : Vars) : List TEntry → Except AsmErr (List TEntry)
  | [] => .ok []
  | e :: rest =>
    match expandOne vars e with
    | .error x => .error x
    | .ok es =>
      match expandAll vars rest with
      | .error x => .error x
      | .ok more => .ok (es ++ more)

def itemMnemonic : Item → Option String
  | .str s => some s
  | .grp pi => some (match pi with
    | .rtype mn .. => mn | .utype mn .. => mn | .btypeLabel mn .. => mn | .mem mn .. => mn
    | .memPseudo mn .. => mn | .sPseudo mn .. => mn | .csr mn .. => mn | .csri mn .. => mn
    | .rri mn .. => mn | .fence .. => "fence" | .jalImm .. => "jal" | .jalLabel .. => "jal"
    | .li .. => "li" | .mv .. => "mv")
  | _ => none

def isRealMnemonic (s : String) : Bool := (Op.ofMnemonic s).isSome

abbrev Labels := List (String × Int)
def lookupLabel (ls : Labels) (n : String) : Option Int := (ls.find? (fun p => p.1 == n)).map (·.2)

def addLabel (ls : Labels) (n : String) (v : Int) (k : Nat) (line : String) : Except AsmErr Labels :=
  if (lookupLabel ls n).isSome then .error (.parser "DuplicateLabelException" k line) else .ok (ls ++ [(n, v)])

/-- `_process_labels`; `pending` = `self.in_line_labels` (line number ↦ label). -/
def processLabels : List TEntry → List (Nat × String) → Labels → Int → Except AsmErr Labels
  | [], _, ls, _ => .ok ls
  | (k, line, it) :: rest, pending, ls, addr =>
    match it with
    | .str s =>
      if s ≠ "ecall" ∧ s ≠ "ebreak" then
        match addLabel ls s addr k line with
        | .error e => .error e
        | .ok ls' => processLabels rest pending ls' addr
      else
        match pending.find? (fun p => p.1 == k) with
        | some (_, l) =>
          match addLabel ls l addr k line with
          | .error e => .error e
          | .ok ls' => processLabels rest (pending.filter (fun p => p.1 != k)) ls' (addr + 4)
        | none => processLabels rest pending ls (addr + 4)
    | _ =>
      let counts := match itemMnemonic it with
        | some m => isRealMnemonic m
        | none => false
      let next := if counts then addr + 4 else addr
      match pending.find? (fun p => p.1 == k) with
      | some (_, l) =>
        match addLabel ls l addr k line with
        | .error e => .error e
        | .ok ls' => processLabels rest (pending.filter (fun p => p.1 != k)) ls' next
      | none => processLabels rest pending ls next

def mkInstr (op : Op) (rd rs1 rs2 : Nat) (raw : Int) (aux : Int := 0) : Instr :=
  { op := op, rd := rd, rs1 := rs1, rs2 := rs2, imm := storedImm op raw, aux := aux }

/-- `_convert_label_or_imm` for the label form (an odd displacement is rejected like an odd number) -/
def labelDisp (ls : Labels) (l : String) (off : Int) (addr : Int) (k : Nat) (line : String) : Except AsmErr Int :=
  match lookupLabel ls l with
  | some a =>
    if (a + off - addr) % 2 ≠ 0 then .error (.parser "ParserOddImmediateException" k line)
    else .ok (a + off - addr)
  | none => .error (.parser "ParserLabelException" k line)

/-- instruction object for one grouped entry at address `addr` -/
def instantiate (ls : Labels) (addr : Int) (k : Nat) (line : String) (pi : PInstr) : Except AsmErr Instr :=
  let syn : Except AsmErr Instr := .error (.parser "ParserSyntaxException" k line)
  let opOf (mn : String) : Option Op := Op.ofMnemonic mn
  match pi with
  | .rtype mn rd rs1 rs2 => match opOf mn with | some op => .ok (mkInstr op rd rs1 rs2 0) | none => syn
  | .utype mn rd imm => match opOf mn with | some op => .ok (mkInstr op rd 0 0 imm) | none => syn
  | .rri mn a b imm | .mem mn a imm b =>
    match opOf mn with
    | none => syn
    | some op =>
      match op.ty with
      | .i | .memI | .shiftI => .ok (mkInstr op a b 0 imm)          -- rd = reg1, rs1 = reg2
      | .s => .ok (mkInstr op 0 b a imm)                              -- rs1 = reg2, rs2 = reg1
      | .b =>
        if imm % 2 ≠ 0 then .error (.parser "ParserOddImmediateException" k line)
        else .ok (mkInstr op 0 a b imm)
      | _ => syn
  | .btypeLabel mn a b l off =>
    match opOf mn with
    | none => syn
    | some op =>
      match labelDisp ls l off addr k line with
      | .error e => .error e
      | .ok d => .ok (mkInstr op 0 a b d)
  | .jalImm rd imm =>
    if imm % 2 ≠ 0 then .error (.parser "ParserOddImmediateException" k line)
    else .ok (mkInstr .jal rd 0 0 (imm - addr) imm)
  | .jalLabel rd l off =>
    match labelDisp ls l off addr k line with
    | .error e => .error e
    | .ok d => .ok (mkInstr .jal rd 0 0 d (d + addr))
  | .csr mn rd c rs1 => match opOf mn with | some op => .ok { op := op, rd := rd, rs1 := rs1, aux := c } | none => syn
  | .csri mn rd c u => match opOf mn with | some op => .ok { op := op, rd := rd, imm := u % 32, aux := c } | none => syn
  | .fence _ _ => .ok { op := .fence }
  | .memPseudo .. | .sPseudo .. | .li .. | .mv .. => syn

/-- `_write_instructions` (the list of instruction objects) -/
def buildInstrs (ls : Labels) : List TEntry → Int → Except AsmErr (List Instr)
  | [], _ => .ok []
  | (k, line, it) :: rest, addr =>
    match it with
    | .str s =>
      if s = "ecall" then (buildInstrs ls rest (addr + 4)).map ({ op := .ecall } :: ·)
      else if s = "ebreak" then (buildInstrs ls rest (addr + 4)).map ({ op := .ebreak, imm := 1 } :: ·)
      else buildInstrs ls rest addr
    | .grp pi =>
      match instantiate ls addr k line pi with
      | .error e => .error e
      | .ok ins => (buildInstrs ls rest (addr + 4)).map (ins :: ·)
    | _ => .error (.parser "ParserSyntaxException" k line)

structure LoadOut where
  st  : St
  err : Option AsmErr

/-- `RiscvSimulation.load_program(text)`: both memories are reset, then the parser passes run; on an
    error the state keeps what the passes did so far (data already written, instruction memory empty
    or, for a program that does not fit, filled up to the last valid address). -/
def load (s : St) (text : String) : LoadOut :=
  let s0 : St := { s with mem := s.mem.reset, imem := { prog := [], cache := s.imem.cache.map ICache.reset } }
  match tokenize (sanitize text) with
  | .error e => { st := s0, err := some e }
  | .ok toks =>
    match segment toks with
    | .error e => { st := s0, err := some e }
    | .ok (data, text') =>
      let pending : List (Nat × String) := text'.filterMap fun (k, _, t) => t.lbl.map fun l => (k, l)
      let tentries : List TEntry := text'.map fun (k, line, t) => (k, line, t.item)
      let d := writeData data { mem := s0.mem, vars := [], ctr := 16384, err := none }
      let s1 := { s0 with mem := d.mem }
      match d.err with
      | some e => { st := s1, err := some e }
      | none =>
        match expandAll d.vars tentries with
        | .error e => { st := s1, err := some e }
        | .ok expanded =>
          match processLabels expanded pending [] 0 with
          | .error e => { st := s1, err := some e }
          | .ok ls =>
            match buildInstrs ls expanded 0 with
            | .error e => { st := s1, err := some e }
            | .ok instrs =>
              if instrs.length > 4096 then
                { st := { s1 with imem := { s1.imem with prog := instrs.take 4096 } }, err := some (.memAddr 16384) }
              else { st := { s1 with imem := { s1.imem with prog := instrs } }, err := none }

def hexNib (n : Nat) : Char := if n < 10 then Char.ofNat (48 + n) else Char.ofNat (87 + n)
def hexStr (s : String) : String :=
  if s.isEmpty then "." else s.toUTF8.foldl (fun acc b => acc ++ String.ofList [hexNib (b.toNat / 16), hexNib (b.toNat % 16)]) ""

def errStr : AsmErr → String
  | .parser kind k line => s!"PE {kind} {k} {hexStr line}"
  | .memAddr a => s!"ME addr {a}"

def instrTok (i : Instr) : String := s!"{i.op.mnemonic},{i.rd},{i.rs1},{i.rs2},{i.imm},{i.aux}"

def sortInts (l : List Int) : List Int := l.mergeSort (fun a b => a ≤ b)

def memDump (m : Mem.Mem) : String :=
  String.intercalate "," ((sortInts m.keys).map fun a => s!"{a}:{m.cells a}")

def listing (s : St) : String :=
  let toks := s.imem.prog.map instrTok
  s!"ok 1 {if toks.isEmpty then "." else String.intercalate ";" toks} | {memDump s.mem.backing}"

def loadProgram (s : St) (text : String) : St × String :=
  let o := load s text
  match o.err with
  | none => (o.st, listing o.st)
  | some e => (o.st, errStr e)

def freshSt : St :=
  { regs := fun _ => 0, pc := 0, mem := .flat (Mem.Mem.empty Mem.riscvCfg), imem := { prog := [], cache := none },
    output := "", exitCode := none, cycles := 0, instrs := 0, branches := 0, procs := 0, stalls := 0, flushes := 0 }

def assembleStr (text : String) : String := (loadProgram freshSt text).2

end ArchSim.Asm
