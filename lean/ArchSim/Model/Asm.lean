import ArchSim.Model.Rv
namespace ArchSim.Asm
open ArchSim
def assembleStr (_text : String) : String := "unimplemented"
def loadProgram (s : Rv.St) (_text : String) : Rv.St × String := (s, "unimplemented")
end ArchSim.Asm
