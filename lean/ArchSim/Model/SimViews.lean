/-
Model of the inspection functions of `simulation/riscv_simulation.py` that show the PROGRAM and the CACHE
STATISTICS (the value tables — registers, data memory, TOY — are in `Model/Views.lean`):
  `get_instruction_memory_entries()`   → `listing`      (address, address text, printed instruction, stage column)
  `get_data_cache_stats()`             → `dataStats`    (hits, accesses, last-hit flag, address of the access shown)
  `get_instruction_cache_stats()`      → `instrStats`
  `MemorySystem.get_cache_stats()` / `InstructionMemoryCacheSystem.get_cache_stats()` → `Stats.ofCounters`
The driver renders these structures to text; the theorems of `Props/C14Views.lean`, `Props/C09Views.lean` and
`Props/C11Views.lean` speak about them.  Import-free apart from the other model files: compiled into the driver.

The single-stage mode keeps ONE pipeline register (`SingleStagePipelineRegister`), which the execution model
`Rv.singleStep` does not carry (it is display only).  What it holds after a step is a function of the state BEFORE
the step (`singleLatch`); the view functions therefore take the list of displayed registers (`marks`, `shownAccess`)
as an argument, and `fiveMarks` / `singleMarks` compute it for the two modes.
-/
import ArchSim.Model.Sim
import ArchSim.Model.Views

namespace ArchSim.SimViews
open ArchSim

/-! ### instruction listing with its stage column -/

/-- The pipeline registers in list order, as (`address_of_instruction`, `abbreviation`). -/
abbrev Marks := List (Option Int × String)

/-- Five-stage mode: `pipeline_registers = [IF/ID, ID/EX, EX/MEM, MEM/WB, WB output]`.  A bubble (whatever its
    Python class) has `address_of_instruction = None`. -/
def fiveMarks (p : Pipe.PSt) : Marks :=
  [(p.l0.map (·.addr), "IF"), (p.l1.map (·.addr), "ID"), (p.l2.map (·.addr), "EX"),
   (p.l3.map (·.addr), "MEM"), (p.l4.map (·.addr), "WB")]

/-- `SingleStage.TYPE_NO_VISUALISATION_AVIVABLE`: a step of one of these returns the base `PipelineRegister()`. -/
def noVis (o : Rv.Op) : Bool :=
  match o with
  | .csrrw | .csrrs | .csrrc | .csrrwi | .csrrsi | .csrrci | .ebreak | .fence => true
  | _ => false

/-- The single register of single-stage mode, as left by the last step that returned normally, started in
    state `before` (`none`: nothing was stepped yet).  It is the base `PipelineRegister()` (address `None`) when the
    pc held no instruction or an instruction without visualisation. -/
def singleLatch (before : Option Rv.St) : Option Int :=
  match before with
  | none => none
  | some s => match s.imem.instrAt s.pc with
    | some i => if noVis i.op then none else some s.pc
    | none => none

/-- Which state the single-stage register describes after `step()`: unchanged when the simulation was done
    (no pipeline step) or the step raised (the registers are only replaced at the end of `Pipeline.step`). -/
def beforeAfter (s : Sim.RSim) (before : Option Rv.St) : Option Rv.St :=
  if s.five || Sim.isDone s || (Sim.step s).fault.isSome then before else some s.p.st

def singleMarks (before : Option Rv.St) : Marks := [(singleLatch before, "Single")]

/-- The dict `pipeline_stages_addresses` is filled in register order, so the LAST register that holds the
    address names the stage; an address held by no register shows the empty string. -/
def stageOf (marks : Marks) (a : Int) : String :=
  match marks.reverse.find? (fun m => m.1 == some a) with
  | some m => m.2
  | none => ""

/-- One row of `get_instruction_memory_entries()`: `((address, "0x%08X"), str(instruction), stage)`. -/
structure ListRow where
  addr     : Int
  addrText : String
  instr    : String
  stage    : String
deriving Repr, DecidableEq

def listRow (marks : Marks) (k : Nat) (i : Rv.Instr) : ListRow :=
  { addr := 4 * (k : Int), addrText := Views.addrText 8 (4 * (k : Int)), instr := i.repr,
    stage := stageOf marks (4 * (k : Int)) }

/-- `get_instruction_memory_entries()`: one row per stored instruction, instruction `k` at address `4k`. -/
def listing (prog : List Rv.Instr) (marks : Marks) : List ListRow :=
  prog.mapIdx (fun k i => listRow marks k i)

def listingOf (s : Sim.RSim) (before : Option Rv.St) : List ListRow :=
  listing s.p.st.imem.prog (if s.five then fiveMarks s.p else singleMarks before)

/-! ### cache statistics -/

/-- `"{:032b}".format(address % (2**32))` -/
def bin32 (a : Int) : String := String.ofList (Fmt.padLeft 32 (Fmt.natStr 2 (a % 4294967296).toNat))

/-- The dict of `get_*_cache_stats()`: `hits` and `accesses` are `str(int)`, `last_hit` the flag, `address` the
    32 binary digits of the access the view highlights (or `None`). -/
structure Stats where
  hits     : String
  accesses : String
  lastHit  : Bool
  address  : Option String
deriving Repr, DecidableEq

def Stats.ofCounters (hits accesses : Nat) (lastHit : Bool) (address : Option Int) : Stats :=
  { hits := String.ofList (Fmt.natStr 10 hits), accesses := String.ofList (Fmt.natStr 10 accesses),
    lastHit := lastHit, address := address.map bin32 }

/-- Five-stage mode: the `memory_address` of the MEM/WB register when its instruction reads or writes memory. -/
def fiveDataAccess (p : Pipe.PSt) : Option Int :=
  match p.l3 with
  | none => none
  | some x =>
    if (Rv.ctlOf x.instr).memWrite = some true || (Rv.ctlOf x.instr).memRead = some true then x.result else none

/-- Single-stage mode: the `memory_address` of the display register — the ALU result (`x[rs1] + imm`, not reduced) of the
    load or store executed by the last step that returned normally; `None` for any other instruction. -/
def singleDataAccess (before : Option Rv.St) : Option Int :=
  match before with
  | none => none
  | some s =>
    match s.imem.instrAt s.pc with
    | none => none
    | some i =>
      if i.op.ty = .memI || i.op.ty = .s then
        match Rv.aluCompute i (Rv.accessRegs i s.regs).d1 (Rv.accessRegs i s.regs).imm with
        | some (_, r) => r
        | none => none
      else none

/-- `get_data_cache_stats()`; `shown` is the access the pipeline view holds (`fiveDataAccess`, or the
    `memory_address` of the single-stage register).  `None` without a data cache. -/
def dataStats (m : Rv.MemSys) (shown : Option Int) : Option Stats :=
  match m with
  | .flat _ => none
  | .cached _ s => some (Stats.ofCounters s.hits s.accesses s.lastHit shown)

/-- `get_instruction_cache_stats()`; `fetched` is the `address_of_instruction` of register 0. -/
def instrStats (im : Rv.IMem) (fetched : Option Int) : Option Stats :=
  match im.cache with
  | none => none
  | some c => some (Stats.ofCounters c.hits c.accesses c.lastHit fetched)

def fiveDataStats (p : Pipe.PSt) : Option Stats := dataStats p.st.mem (fiveDataAccess p)
def singleDataStats (s : Rv.St) (before : Option Rv.St) : Option Stats := dataStats s.mem (singleDataAccess before)
def fiveInstrStats (p : Pipe.PSt) : Option Stats := instrStats p.st.imem (p.l0.map (·.addr))
def singleInstrStats (s : Rv.St) (before : Option Rv.St) : Option Stats := instrStats s.imem (singleLatch before)

/-! ### storing one instruction -/

/-- `instruction_memory.write_instruction(4k, instr)` for `k` at most the program length: instruction `k` is replaced, or the
    instruction is appended.  Nothing else changes — in particular an instruction cache is NOT invalidated (as in the
    code: `InstructionMemoryCacheSystem.write_instruction` only forwards to the lower memory). -/
def writeInstr (im : Rv.IMem) (k : Nat) (i : Rv.Instr) : Option Rv.IMem :=
  if k < im.prog.length then some { im with prog := im.prog.set k i }
  else if k = im.prog.length then some { im with prog := im.prog ++ [i] }
  else none          -- a hole in front of the instruction: not modelled (the program is a list)

/-! ### performance-metrics text -/

/-- The counter lines of `get_performance_metrics_str()` = `str(RiscvPerformanceMetrics)`, in order.  The wall-clock lines
    (`execution time`, `instructions per second`) and the `cycles per instruction` line (a float formatted with `.2f`)
    are not modelled.  Note the blank behind the instruction count. -/
def metricsLines (s : Rv.St) : List String :=
  [ "instructions: " ++ String.ofList (Fmt.natStr 10 s.instrs) ++ " ",
    "branches: " ++ String.ofList (Fmt.natStr 10 s.branches),
    "procedures: " ++ String.ofList (Fmt.natStr 10 s.procs),
    "cycles: " ++ String.ofList (Fmt.natStr 10 s.cycles),
    "stalls: " ++ String.ofList (Fmt.natStr 10 s.stalls),
    "flushes: " ++ String.ofList (Fmt.natStr 10 s.flushes) ]

/-- The counter lines of `str(ToyPerformanceMetrics)` (again without the wall-clock lines). -/
def toyMetricsLines (t : Toy.TSim) : List String :=
  [ "instructions: " ++ String.ofList (Fmt.natStr 10 t.s.instrs) ++ " ",
    "cycles: " ++ String.ofList (Fmt.natStr 10 t.s.cycles),
    "branches: " ++ String.ofList (Fmt.natStr 10 t.s.branches) ]

end ArchSim.SimViews
