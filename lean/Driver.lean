/-
Line-protocol driver for the executable models (one command per line in, one canonical line out).
The Python harness (`/verif/harness`) drives the real implementation with the same commands and
diffs the two output streams. Imports only the import-free `ArchSim.Model.*`, so it links without
Mathlib.
-/
import ArchSim.Model.Repl
import ArchSim.Model.Mem
import ArchSim.Model.Cache
import ArchSim.Model.Rv
import ArchSim.Model.Pipe
import ArchSim.Model.Toy
import ArchSim.Model.Fmt
import ArchSim.Model.ToyAsm
import ArchSim.Model.Asm
import ArchSim.Model.Sim
import ArchSim.Model.Views
import ArchSim.Model.SimViews
import ArchSim.Model.CacheViews

namespace Driver
open ArchSim

/-! ### small helpers -/

def splitWs (s : String) : List String := (s.splitOn " ").filter (· ≠ "")

def parseInt? (s : String) : Option Int := s.toInt?
def parseNat? (s : String) : Option Nat := s.toNat?

def optStr {α : Type} (f : α → String) : Option α → String
  | none => "-"
  | some a => f a

def boolStr (b : Bool) : String := if b then "1" else "0"
def joinC (l : List String) : String := String.intercalate "," l

def hexNib (c : Char) : Option Nat :=
  if '0' ≤ c ∧ c ≤ '9' then some (c.toNat - 48)
  else if 'a' ≤ c ∧ c ≤ 'f' then some (c.toNat - 87)
  else if 'A' ≤ c ∧ c ≤ 'F' then some (c.toNat - 55)
  else none

/-- Decode a hex string of UTF-8 bytes. -/
def unhex (s : String) : Option String :=
  let rec go : List Char → ByteArray → Option ByteArray
    | [], acc => some acc
    | [_], _ => none
    | a :: b :: rest, acc =>
      match hexNib a, hexNib b with
      | some x, some y => go rest (acc.push (UInt8.ofNat (x * 16 + y)))
      | _, _ => none
  if s = "." then some "" else
  match go s.toList ByteArray.empty with
  | none => none
  | some ba => String.fromUTF8? ba

def hexOfByte (b : UInt8) : String :=
  let d (n : Nat) : Char := if n < 10 then Char.ofNat (48 + n) else Char.ofNat (87 + n)
  String.ofList [d (b.toNat / 16), d (b.toNat % 16)]

def hex (s : String) : String :=
  if s.isEmpty then "." else s.toUTF8.foldl (fun acc b => acc ++ hexOfByte b) ""

def sortInts (l : List Int) : List Int := l.mergeSort (fun a b => a ≤ b)

/-! ### printing of model states -/

def errStr : Cache.Err → String
  | .addr a => s!"E addr {a}"
  | .byteOffset o m => s!"E byteoff {o} {m}"
  | .policy => "E other"
  | .unsupported => "E unsupported"

def memDump (m : Mem.Mem) : String :=
  joinC ((sortInts m.keys).map fun a => s!"{a}:{m.cells a}")

def memRepr (m : Mem.Mem) (bits : Nat) : String :=
  match Mem.reprEntries m bits with
  | .error e => s!"E addr {e.address}"
  | .ok l => joinC ((l.mergeSort (fun a b => a.1 ≤ b.1)).map fun (a, v) => s!"{a}:{v}")

def wayStr {α : Type} (f : α → String) (w : Cache.Way α) : String :=
  if w.valid then s!"1{boolStr w.dirty}t{w.tag}b{w.base}[{joinC (w.vals.map f)}]" else "0"

def setsStr {σ α : Type} (pf : σ → String) (f : α → String) (sets : List (Cache.CSet σ α)) : String :=
  String.intercalate "/" (sets.map fun s => pf s.pol ++ ":" ++ String.intercalate ";" (s.ways.map (wayStr f)))

def dsysStats {σ : Type} (s : Cache.DSys σ) : String := s!"{s.hits} {s.accesses} {boolStr s.lastHit}"

def dsysDump {σ : Type} (pf : σ → String) (s : Cache.DSys σ) : String :=
  s!"{dsysStats s}|{setsStr pf toString s.sets}|{memDump s.mem}"

def outStr {σ : Type} (o : Cache.Out σ) : String :=
  match o.res with
  | .ok v => s!"v {v} x{o.extra}"
  | .error e => s!"{errStr e} x{o.extra}"

def instrStr (i : Rv.Instr) : String := hex i.repr

def oInstrStr : Option Rv.Instr → String
  | none => "_"
  | some i => instrStr i

def faultStr : Rv.Fault → String
  | .mem e => errStr e
  | .ecallCode c => s!"E ecall {c}"
  | .notImplemented => "E notimpl"
  | .unmodelled => "E unmodelled"

def oi : Option Int → String := optStr toString
def on : Option Nat → String := optStr toString
def ob : Option Bool → String := optStr boolStr

def latchStr (pos : Nat) : Option Pipe.Latch → String
  | none => "-"
  | some l =>
    let base := s!"{instrStr l.instr}@{l.addr};pc4={l.pc4};fg={boolStr l.flagged}"
    match pos with
    | 0 => base
    | 1 => base ++ s!";a1={on l.rr.a1};a2={on l.rr.a2};d1={oi l.rr.d1};d2={oi l.rr.d2};imm={oi l.rr.imm};wr={on l.wreg};st={boolStr l.stall}"
    | 2 => base ++ s!";d1={oi l.rr.d1};d2={oi l.rr.d2};imm={oi l.rr.imm};wr={on l.wreg};res={oi l.result};cmp={ob l.cmp};pci={oi l.pcImm};ex={oi l.exitCode};st={boolStr l.stall};fl={oi l.flush}"
    | 3 => base ++ s!";d2={oi l.rr.d2};imm={oi l.rr.imm};wr={on l.wreg};res={oi l.result};cmp={ob l.cmp};pci={oi l.pcImm};ex={oi l.exitCode};mr={oi l.memRead};fl={oi l.flush}"
    | _ => base ++ s!";imm={oi l.rr.imm};wr={on l.wreg};res={oi l.result};mr={oi l.memRead};wd={oi l.wdata};fl={oi l.flush}"

def memSysStr : Rv.MemSys → String
  | .flat m => "flat|" ++ memDump m
  | .cached _ s => "dc|" ++ dsysDump Repl.Pol.reprStr s

def icacheStr : Option Rv.ICache → String
  | none => "-"
  | some c => s!"{c.hits} {c.accesses} {boolStr c.lastHit}|{setsStr Repl.Pol.reprStr oInstrStr c.sets}"

def stStr (s : Rv.St) : String :=
  let regs := joinC ((List.range 32).map fun r => toString (s.regs r))
  s!"pc={s.pc}|regs={regs}|out={hex s.output}|exit={oi s.exitCode}|cyc={s.cycles}|ins={s.instrs}|br={s.branches}|pr={s.procs}|st={s.stalls}|fl={s.flushes}|mem={memSysStr s.mem}|ic={icacheStr s.imem.cache}"

def stallStr : Option Pipe.Stall → String
  | none => "-"
  | some st => s!"{st.k},{st.rem}|P0={latchStr 0 st.p0}|P1={if st.k = 2 then latchStr 1 st.p1 else "-"}"

def pstStr (p : Pipe.PSt) : String :=
  s!"{stStr p.st}|L0={latchStr 0 p.l0}|L1={latchStr 1 p.l1}|L2={latchStr 2 p.l2}|L3={latchStr 3 p.l3}|L4={latchStr 4 p.l4}|stalled={stallStr p.stalled}"

def visStr (v : Toy.Vis) : String :=
  s!"{on v.accuOld},{on v.aluOut},{boolStr v.jump},{on v.ramOut},{on v.opOld},{on v.pcOld}"

def toyStr (t : Toy.TSim) : String :=
  let s := t.s
  s!"pc={s.pc}|cur={on s.addrCur}|next={s.addrNext}|accu={s.accu}|cyc={s.cycles}|ins={s.instrs}|br={s.branches}|max={oi s.maxPc}|ir={optStr (fun i => toString (Toy.encode i)) s.loaded}|vis={visStr s.vis}|nc={t.nextCycle}|started={boolStr t.started}|mem={memDump s.mem}"

def reprsStr (r : Fmt.Reprs) : String := s!"{hex r.bin},{hex r.udec},{hex r.hex},{hex r.sdec}"

/-- One row list joined by `;`, or the address error. -/
def tableStr {α} (row : α → String) : Except Mem.AddrErr (List α) → String
  | .error e => s!"E addr {e.address}"
  | .ok l => String.intercalate ";" (l.map row)

/-- `get_register_entries()` rendered: the 32 rows of `Views.regTable`. -/
def regTableStr (regs : Nat → Nat) : String :=
  String.intercalate ";" ((Views.regTable regs).map reprsStr)

/-- `get_data_memory_entries()` rendered: ascending ((address, "0x%08X"), representations of the word). -/
def memTable (m : Mem.Mem) : String :=
  tableStr (fun (r : Views.DataRow) => s!"{r.addr},{hex r.addrText},{reprsStr r.reprs}") (Views.dataTable m)

def optReprsStr : Option Fmt.Reprs → String
  | some r => reprsStr r
  | none => "-"

/-- `ToySimulation.get_register_representations()` rendered -/
def toyRegTable (t : Toy.TSim) : String :=
  let v := Views.toyRegs t
  s!"accu={optReprsStr v.accu}|pc={optReprsStr v.pc}|ir={optReprsStr v.ir}"

/-- `ToySimulation.get_memory_table_entries()` rendered -/
def toyMemTable (t : Toy.TSim) : String :=
  tableStr (fun (r : Views.ToyRow) =>
      s!"{r.addr},{hex r.addrText},{reprsStr r.reprs},{hex r.instr},{hex r.mark}")
    (Views.toyMemTable t)

def tyStr : Rv.Ty → String
  | .r => "r" | .i => "i" | .memI => "memI" | .shiftI => "shiftI" | .s => "s" | .b => "b" | .u => "u"
  | .j => "j" | .fence => "fence" | .csr => "csr" | .csri => "csri"

def ctlStr (c : Rv.Ctl) : String :=
  s!"{ob c.aluSrc1},{ob c.aluSrc2},{on c.wbSrc},{ob c.regWrite},{ob c.memRead},{ob c.memWrite},{ob c.branch},{ob c.jump},{on c.aluOp},{ob c.aluToPc}"

/-- Constant tables of the models, printed canonically. -/
def constsStr (what : String) : String :=
  match what with
  | "ops" => joinC (Rv.allOps.map fun o => s!"{o.mnemonic}:{tyStr o.ty}")
  | "ctl" => String.intercalate ";" (Rv.allOps.map fun o =>
      s!"{o.mnemonic}={ctlStr (Rv.ctlOf { op := o })}|w={on (Rv.writeReg { op := o, rd := if o = .ecall ∨ o = .ebreak then 0 else 7 })}|b={Rv.accessBits o}")
  | "asm" =>
    let l (xs : List String) := joinC xs
    s!"rrr={l Asm.rrrMn}|i={l Asm.normalIMn}|memi={l Asm.memIMn}|b={l Asm.bMn}|s={l Asm.sMn}|u={l Asm.uMn}|csr={l Asm.csrMn}|csri={l Asm.csriMn}|abi={joinC (Asm.abiNames.map fun (n, k) => s!"{n}:{k}")}"
  | "toy" => s!"addr={joinC ToyAsm.addrMnemonics}|noaddr={joinC ToyAsm.noAddrMnemonics}|opc={joinC ((ToyAsm.addrMnemonics ++ ToyAsm.noAddrMnemonics).map fun m => s!"{m}:{ToyAsm.opcodeOf m}")}|mn={joinC ((List.range 16).map Toy.mnemonic)}"
  | "mem" => s!"riscv={Mem.riscvCfg.cellBits},{Mem.riscvCfg.addrBits},{boolStr Mem.riscvCfg.overflow},{Mem.riscvCfg.lo},{Mem.riscvCfg.hi}|toy={Mem.toyCfg.cellBits},{Mem.toyCfg.addrBits},{boolStr Mem.toyCfg.overflow},{Mem.toyCfg.lo},{Mem.toyCfg.hi}|imem=0,16384"
  | _ => "bad-op"

/-! ### driver state -/

inductive DC where
  | real (isLru : Bool) (s : Cache.DSys Repl.Pol)
  | forced (s : Cache.DSys Nat)

structure State where
  repl : Option Repl.Pol := none
  mem  : Option Mem.Mem := none
  dc   : Option DC := none
  sim  : Option (Bool × Pipe.PSt) := none       -- (five-stage?, state)
  simStarted : Bool := false                    -- `RiscvSimulation.has_started` (`Model.Sim.RSim.started`)
  simBefore : Option Rv.St := none              -- the state the single-stage register describes (`SimViews.beforeAfter`)
  toy  : Toy.TSim := {}

def parseInstr (tok : String) : Option Rv.Instr :=
  match tok.splitOn "," with
  | [op, rd, rs1, rs2, imm, aux] =>
    match Rv.Op.ofMnemonic op, rd.toNat?, rs1.toNat?, rs2.toNat?, imm.toInt?, aux.toInt? with
    | some o, some a, some b, some c, some d, some e =>
      some { op := o, rd := a, rs1 := b, rs2 := c, imm := d, aux := e }
    | _, _, _, _, _, _ => none
  | _ => none

def parseGeo (a b c : String) : Option Cache.Geo :=
  match a.toNat?, b.toNat?, c.toNat? with
  | some x, some y, some z => some { idxBits := x, blkBits := y, assoc := z }
  | _, _, _ => none

def newMemSys (spec : String) : Option Rv.MemSys :=
  if spec = "-" then some (.flat (Mem.Mem.empty Mem.riscvCfg))
  else match spec.splitOn "," with
    | [ty, pol, a, b, c, pen] =>
      match parseGeo a b c, pen.toNat? with
      | some g, some p =>
        let isLru := pol = "lru"
        some (.cached isLru (Cache.DSys.init (Cache.polOps isLru) (ty = "wt") g p (Mem.Mem.empty Mem.riscvCfg)))
      | _, _ => none
    | _ => none

def newICache (spec : String) : Option (Option Rv.ICache) :=
  if spec = "-" then some none
  else match spec.splitOn "," with
    | [pol, a, b, c, pen] =>
      match parseGeo a b c, pen.toNat? with
      | some g, some p => some (some (Rv.ICache.init (pol = "lru") g p))
      | _, _ => none
    | _ => none

def freshSt (ms : Rv.MemSys) (ic : Option Rv.ICache) : Rv.St :=
  { regs := fun _ => 0, pc := 0, mem := ms, imem := { prog := [], cache := ic }, output := "",
    exitCode := none, cycles := 0, instrs := 0, branches := 0, procs := 0, stalls := 0, flushes := 0 }

def simFaultStr (f : Int × Option Rv.Instr × Rv.Fault) : String :=
  s!"F {f.1} {optStr instrStr f.2.1} {faultStr f.2.2}"

/-- `RiscvSimulation.step()` through `Model.Sim`. -/
def simStep (five : Bool) (p : Pipe.PSt) : Pipe.PSt × Option String :=
  let r := Sim.step { five := five, p := p }
  (r.sim.p, r.fault.map simFaultStr)

/-- `has_started` after `step()` (as `Model.Sim.step` sets it) -/
def simStartedAfter (five : Bool) (p : Pipe.PSt) (started : Bool) : Bool :=
  (Sim.step { five := five, p := p, started := started }).sim.started

def simDone (five : Bool) (p : Pipe.PSt) : Bool := if five then Pipe.isDone p else Rv.singleDone p.st

def simRun (five : Bool) : Nat → Pipe.PSt → Nat → Pipe.PSt × Nat × Option String
  | 0, p, n => (p, n, none)
  | fuel + 1, p, n =>
    if simDone five p then (p, n, none)
    else match simStep five p with
      | (p', some f) => (p', n, some f)
      | (p', none) => simRun five fuel p' (n + 1)

/-- The state the single-stage register describes after `run()` (`SimViews.beforeAfter` along the steps). -/
def simRunBefore (five : Bool) : Nat → Pipe.PSt → Option Rv.St → Option Rv.St
  | 0, _, b => b
  | fuel + 1, p, b =>
    if simDone five p then b
    else match simStep five p with
      | (_, some _) => b
      | (p', none) => simRunBefore five fuel p' (SimViews.beforeAfter { five := five, p := p } b)

def optHexStr : Option String → String
  | some s => hex s
  | none => "-"

def statsStr (withAddr : Bool) : Option SimViews.Stats → String
  | none => "none"
  | some s => s!"{hex s.hits},{hex s.accesses},{boolStr s.lastHit},{if withAddr then optHexStr s.address else "?"}"

def listingStr (rows : List SimViews.ListRow) : String :=
  if rows.isEmpty then "." else
  String.intercalate ";" (rows.map fun r => s!"{r.addr},{hex r.addrText},{hex r.instr},{hex r.stage}")

def listingTextStr (rows : List SimViews.ListRow) : String :=
  if rows.isEmpty then "." else
  String.intercalate ";" (rows.map fun r => s!"{r.addr},{hex r.addrText},{hex r.instr}")

def statusStr : CacheViews.Status → String
  | .lru ages => "L" ++ String.intercalate "." (ages.map toString)
  | .plru bits => "P" ++ String.intercalate "." (bits.map fun b => if b then "1" else "0")

def blockRowStr (b : CacheViews.BlockRow) : String :=
  String.intercalate "," ([hex b.valid, hex b.dirty, hex b.tag] ++ b.cells.map fun c => s!"{hex c.1}={hex c.2}")

/-- `get_data_cache_entries()` / `get_instruction_cache_entries()` rendered -/
def cacheTableStr : Option (List CacheViews.SetRow) → String
  | none => "none"
  | some rows => String.intercalate ";" (rows.map fun r =>
      s!"{hex r.index}|{statusStr r.status}|{String.intercalate "/" (r.blocks.map blockRowStr)}")

def dcApply (dc : DC) (victim : Option Nat) (f : {σ : Type} → Cache.PolicyOps σ → Cache.DSys σ → Cache.Out σ) :
    DC × String :=
  match dc with
  | .real l s => let o := f (Cache.polOps l) s; (.real l o.sys, outStr o)
  | .forced s =>
    let s' := match victim with
      | some v => { s with sets := s.sets.map fun cs => { cs with pol := v } }
      | none => s
    let o := f Cache.forcedOps s'; (.forced o.sys, outStr o)

def toyCallOut (o : Toy.CallOut) : String := if o.err then "seqerr" else "ok"

def parseCall (s : String) : Option Toy.Call :=
  match s with
  | "first" => some .first | "second" => some .second | "step" => some .step | "single" => some .single
  | _ => none

def process (st : State) (line : String) : State × String :=
  match splitWs line with
  /- replacement policies -/
  | ["repl.new", pol, n] =>
    match n.toNat? with
    | some a => ({ st with repl := some (Repl.Pol.init (pol = "lru") a) }, "ok")
    | none => (st, "bad-op")
  | ["repl.acc", i] =>
    match st.repl, i.toNat? with
    | some p, some k =>
      match p.access k with
      | some p' => ({ st with repl := some p' }, "ok")
      | none => (st, "err")
    | _, _ => (st, "bad-op")
  | ["repl.vic"] =>
    match st.repl with
    | some p => (st, optStr toString p.victim |>.replace "-" "err")
    | none => (st, "bad-op")
  | ["repl.repr"] =>
    match st.repl with
    | some p => (st, p.reprStr)
    | none => (st, "bad-op")
  /- flat memory -/
  | ["mem.new", kind] =>
    ({ st with mem := some (Mem.Mem.empty (if kind = "toy" then Mem.toyCfg else Mem.riscvCfg)) }, "ok")
  | ["mem.r", bits, a] =>
    match st.mem, bits.toNat?, a.toInt? with
    | some m, some b, some x =>
      match Mem.read m b x with
      | none => (st, "E unsupported")
      | some (.ok v) => (st, s!"v {v}")
      | some (.error e) => (st, s!"E addr {e.address}")
    | _, _, _ => (st, "bad-op")
  | ["mem.w", bits, a, v] =>
    match st.mem, bits.toNat?, a.toInt?, v.toNat? with
    | some m, some b, some x, some y =>
      match Mem.write m b x y with
      | none => (st, "E unsupported")
      | some (m', none) => ({ st with mem := some m' }, "ok")
      | some (m', some e) => ({ st with mem := some m' }, s!"E addr {e.address}")
    | _, _, _, _ => (st, "bad-op")
  | ["mem.dump"] =>
    match st.mem with
    | some m => (st, memDump m)
    | none => (st, "bad-op")
  | ["mem.repr", bits] =>
    match st.mem, bits.toNat? with
    | some m, some b => (st, memRepr m b)
    | _, _ => (st, "bad-op")
  | ["mem.reset"] =>
    match st.mem with
    | some m => ({ st with mem := some m.reset }, "ok")
    | none => (st, "bad-op")
  /- data cache systems -/
  | ["dc.new", ty, pol, a, b, c, pen] =>
    match parseGeo a b c, pen.toNat? with
    | some g, some p =>
      let m := Mem.Mem.empty Mem.riscvCfg
      if pol.startsWith "forced" then
        ({ st with dc := some (.forced (Cache.DSys.init Cache.forcedOps (ty = "wt") g p m)) }, "ok")
      else
        let l := pol = "lru"
        ({ st with dc := some (.real l (Cache.DSys.init (Cache.polOps l) (ty = "wt") g p m)) }, "ok")
    | _, _ => (st, "bad-op")
  | "dc.r" :: bits :: a :: counted :: rest =>
    match st.dc, bits.toNat?, a.toInt? with
    | some dc, some b, some x =>
      let victim := rest.head?.bind String.toNat?
      let (dc', out) := dcApply dc victim (fun P s => s.read P b x (counted = "1"))
      ({ st with dc := some dc' }, out)
    | _, _, _ => (st, "bad-op")
  | "dc.w" :: bits :: a :: v :: direct :: rest =>
    match st.dc, bits.toNat?, a.toInt?, v.toNat? with
    | some dc, some b, some x, some y =>
      let victim := rest.head?.bind String.toNat?
      let (dc', out) := dcApply dc victim (fun P s => s.write P b x y (direct = "1"))
      ({ st with dc := some dc' }, out)
    | _, _, _, _ => (st, "bad-op")
  | ["dc.stats"] =>
    match st.dc with
    | some (.real _ s) => (st, dsysStats s)
    | some (.forced s) => (st, dsysStats s)
    | none => (st, "bad-op")
  | ["dc.dump"] =>
    match st.dc with
    | some (.real _ s) => (st, dsysDump Repl.Pol.reprStr s)
    | some (.forced s) => (st, dsysDump (fun _ => "F") s)
    | none => (st, "bad-op")
  | ["dc.reset"] =>
    match st.dc with
    | some (.real l s) => ({ st with dc := some (.real l (s.reset (Cache.polOps l))) }, "ok")
    | some (.forced s) => ({ st with dc := some (.forced (s.reset Cache.forcedOps)) }, "ok")
    | none => (st, "bad-op")
  /- RISC-V simulation -/
  | ["sim.new", mode, hz, dspec, ispec] =>
    match newMemSys dspec, newICache ispec with
    | some ms, some ic =>
      ({ st with sim := some (mode = "five", Pipe.PSt.init (freshSt ms ic) (hz = "1")), simStarted := false, simBefore := none }, "ok")
    | _, _ => (st, "bad-op")
  | "sim.prog" :: toks =>
    match st.sim with
    | some (five, p) =>
      match toks.mapM parseInstr with
      | some is =>
        -- `load_program`: both memories reset, then the instructions are written
        let im : Rv.IMem := { prog := is, cache := p.st.imem.cache.map Rv.ICache.reset }
        ({ st with sim := some (five, { p with st := { p.st with imem := im, mem := p.st.mem.reset } }) }, "ok")
      | none => (st, "bad-op")
    | none => (st, "bad-op")
  /- `instruction_memory.write_instruction(4k, instr)`: one instruction stored or replaced (k at most the program length);
     nothing else changes — in particular an instruction cache is NOT invalidated (as in the code) -/
  | ["sim.wi", k, tok] =>
    match st.sim, k.toNat?, parseInstr tok with
    | some (five, p), some n, some i =>
      match SimViews.writeInstr p.st.imem n i with
      | some im' => ({ st with sim := some (five, { p with st := { p.st with imem := im' } }) }, "ok")
      | none => (st, "bad-op")
    | _, _, _ => (st, "bad-op")
  | ["sim.reg", r, v] =>
    match st.sim, r.toNat?, v.toNat? with
    | some (five, p), some rr, some vv =>
      ({ st with sim := some (five, { p with st := p.st.setReg rr vv }) }, "ok")
    | _, _, _ => (st, "bad-op")
  | ["sim.pc", v] =>
    match st.sim, v.toInt? with
    | some (five, p), some vv => ({ st with sim := some (five, { p with st := { p.st with pc := vv } }) }, "ok")
    | _, _ => (st, "bad-op")
  | ["sim.poke", bits, a, v] =>
    match st.sim, bits.toNat?, a.toInt?, v.toNat? with
    | some (five, p), some b, some x, some y =>
      let o := p.st.mem.write b x y true
      ({ st with sim := some (five, { p with st := { p.st with mem := o.mem } }) },
        match o.res with | .ok _ => "ok" | .error e => errStr e)
    | _, _, _, _ => (st, "bad-op")
  | ["sim.step"] =>
    match st.sim with
    | some (five, p) =>
      let (p', f) := simStep five p
      ({ st with sim := some (five, p'), simStarted := simStartedAfter five p st.simStarted,
                 simBefore := SimViews.beforeAfter { five := five, p := p } st.simBefore },
        match f with | none => s!"ok {boolStr (!simDone five p')}" | some s => s)
    | none => (st, "bad-op")
  | ["sim.split"] =>
    match st.sim with
    | some (five, p) =>
      let o := Pipe.splitStep p.st
      ({ st with sim := some (five, { p with st := o.st }) },
        match o.fault with
        | none => "ok"
        | some (a, f) => s!"F {a} {faultStr f}")
    | none => (st, "bad-op")
  | ["sim.run", n] =>
    match st.sim, n.toNat? with
    | some (five, p), some fuel =>
      let (p', k, f) := simRun five fuel p 0
      -- `run()` calls `step()` at least once unless the simulation is done (or no fuel is given)
      ({ st with sim := some (five, p'), simStarted := if fuel = 0 then st.simStarted else simStartedAfter five p st.simStarted,
                 simBefore := simRunBefore five fuel p st.simBefore }, match f with | none => s!"ran {k} {boolStr (simDone five p')}" | some s => s!"ran {k} {s}")
    | _, _ => (st, "bad-op")
  | ["sim.started"] => (st, boolStr st.simStarted)
  | ["sim.done"] =>
    match st.sim with
    | some (five, p) => (st, boolStr (simDone five p))
    | none => (st, "bad-op")
  | ["sim.snap"] =>
    match st.sim with
    | some (five, p) => (st, if five then pstStr p else stStr p.st)
    | none => (st, "bad-op")
  | ["sim.arch"] =>
    match st.sim with
    | some (_, p) => (st, stStr p.st)
    | none => (st, "bad-op")
  /- TOY -/
  | ["toy.new"] => ({ st with toy := {} }, "ok")
  | "toy.load" :: n :: rest =>
    -- toy.load <n instrs> <words...> ; then pairs addr:value for data
    match n.toNat? with
    | some k =>
      let ws := (rest.take k).filterMap String.toNat?
      let ds := (rest.drop k).filterMap fun t =>
        match t.splitOn ":" with
        | [a, v] => match a.toNat?, v.toNat? with
          | some x, some y => some (x, y)
          | _, _ => none
        | _ => none
      ({ st with toy := Toy.loadImage st.toy (ws.map Toy.decode) ds }, "ok")
    | none => (st, "bad-op")
  | ["toy.loadraw", n, mx] =>
    -- set max_pc and loaded instruction for a raw memory image already poked (self-modifying tests)
    match n.toNat?, mx.toInt? with
    | some w, some m =>
      let t := st.toy
      ({ st with toy := { t with s := { t.s with maxPc := some m, loaded := if m ≥ 0 then some (Toy.decode w) else none } } }, "ok")
    | _, _ => (st, "bad-op")
  | ["toy.poke", a, v] =>
    match a.toNat?, v.toNat? with
    | some x, some y =>
      let t := st.toy
      ({ st with toy := { t with s := { t.s with mem := (Mem.writeN t.s.mem (x : Int) 1 (y % 65536)).1 } } }, "ok")
    | _, _ => (st, "bad-op")
  | ["toy.accu", v] =>
    match v.toNat? with
    | some y => let t := st.toy; ({ st with toy := { t with s := { t.s with accu := y % 65536 } } }, "ok")
    | none => (st, "bad-op")
  | ["toy.call", c] =>
    match parseCall c with
    | some cl => let o := Toy.call st.toy cl; ({ st with toy := o.t }, toyCallOut o)
    | none => (st, "bad-op")
  | ["toy.run", n] =>
    match n.toNat? with
    | some k => let t := Toy.run k st.toy; ({ st with toy := t }, boolStr (Toy.isDone t))
    | none => (st, "bad-op")
  | ["toy.snap"] => (st, toyStr st.toy)
  | ["toy.enc", op, a] =>
    match op.toNat?, a.toNat? with
    | some o, some x => (st, toString (Toy.encode (Toy.decode ((o % 16) * 4096 + x % 4096))))
    | _, _ => (st, "bad-op")
  | ["toy.dec", w] =>
    match w.toNat? with
    | some x => let i := Toy.decode x; (st, s!"{i.opcode} {i.addr} {Toy.mnemonic i.opcode}")
    | none => (st, "bad-op")
  | ["toy.asm", h] =>
    match unhex h with
    | some text => let (t, out) := ToyAsm.loadProgram st.toy text; ({ st with toy := t }, out)
    | none => (st, "bad-op")
  /- constant tables of the models (compared exhaustively with the tables of the code) -/
  | ["consts", what] => (st, constsStr what)
  /- displayed tables (C17): register table, data-memory table, TOY registers and memory table -/
  | ["sim.regtable"] =>
    match st.sim with
    | some (_, p) => (st, regTableStr p.st.regs)
    | none => (st, "bad-op")
  | ["sim.memtable"] =>
    match st.sim with
    | some (_, p) => (st, memTable p.st.mem.backing)
    | none => (st, "bad-op")
  /- program listing with its stage column, cache statistics (C14 / C09 / C11) -/
  | ["sim.listing"] =>
    match st.sim with
    | some (five, p) => (st, listingStr (SimViews.listingOf { five := five, p := p } st.simBefore))
    | none => (st, "bad-op")
  | ["sim.listingtext"] =>
    match st.sim with
    | some (_, p) => (st, listingTextStr (SimViews.listing p.st.imem.prog []))
    | none => (st, "bad-op")
  | ["sim.dcachetable"] =>
    match st.sim with
    | some (_, p) => (st, cacheTableStr (CacheViews.dataCacheTable p.st.mem))
    | none => (st, "bad-op")
  | ["sim.icachetable"] =>
    match st.sim with
    | some (_, p) => (st, cacheTableStr (CacheViews.instrCacheTable p.st.imem))
    | none => (st, "bad-op")
  | ["sim.metrics"] =>
    match st.sim with
    | some (_, p) => (st, String.intercalate "|" ((SimViews.metricsLines p.st).map hex))
    | none => (st, "bad-op")
  | ["sim.dstats"] =>
    match st.sim with
    | some (five, p) =>
      (st, statsStr true (if five then SimViews.fiveDataStats p else SimViews.singleDataStats p.st st.simBefore))
    | none => (st, "bad-op")
  | ["sim.istats"] =>
    match st.sim with
    | some (five, p) =>
      (st, statsStr true (if five then SimViews.fiveInstrStats p else SimViews.singleInstrStats p.st st.simBefore))
    | none => (st, "bad-op")
  | ["toy.metrics"] => (st, String.intercalate "|" ((SimViews.toyMetricsLines st.toy).map hex))
  | ["toy.regtable"] => (st, toyRegTable st.toy)
  | ["toy.memtable"] => (st, toyMemTable st.toy)
  -- inspection functions are `State → View` in the model: no-ops on the state
  | ["sim.insp", _] => (st, "ok")
  | ["toy.insp", _] => (st, "ok")
  | ["rv.repr", tok] =>
    match parseInstr tok with
    | some i => (st, hex i.repr)
    | none => (st, "bad-op")
  /- formatter -/
  | ["fmt", x, n] =>
    match x.toInt?, n.toNat? with
    | some v, some k =>
      let r := Fmt.nBitRepr v k
      (st, s!"{hex r.bin} {hex r.udec} {hex r.hex} {hex r.sdec}")
    | _, _ => (st, "bad-op")
  /- RISC-V assembler -/
  | ["asm", h] =>
    match unhex h with
    | some text => (st, Asm.assembleStr text)
    | none => (st, "bad-op")
  | ["sim.load", h] =>
    match st.sim, unhex h with
    | some (five, p), some text =>
      let (s', out) := Asm.loadProgram p.st text
      ({ st with sim := some (five, { p with st := s' }) }, out)
    | _, _ => (st, "bad-op")
  | _ => (st, "bad-op")

partial def loop (h : IO.FS.Stream) (out : IO.FS.Stream) (st : State) : IO Unit := do
  let line ← h.getLine
  if line.isEmpty then return ()
  let l := String.ofList (line.toList.filter (fun c => c != (Char.ofNat 10) && c != (Char.ofNat 13)))
  let (st', o) := process st l
  out.putStrLn o
  loop h out st'

end Driver
